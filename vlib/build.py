"""Build the subject (gufo_snmp from $VERIF_REPO, default /repo) for the engines.

EXT  - the real `_fast` extension (cdylib, feature verif) staged beside a copy of the
       repository's python package, importable as `gufo.snmp`.
RSX  - the Rust explorer binary linked against the same sources as an rlib.

Nothing is ever written into the repository. Products are keyed by a hash of the
sources, so concurrent checks and scratch copies do not disturb each other.
"""

import hashlib
import os
import re
import shutil
import subprocess
import sys
import tempfile
import time

VERIF = os.path.dirname(os.path.dirname(os.path.abspath(__file__)))
CACHE = os.path.join(VERIF, ".cache")
PYTHON = "/usr/bin/python3"


class MachineryError(Exception):
    pass


def repo_path():
    return os.path.abspath(os.environ.get("VERIF_REPO", "/repo"))


def _walk_sources(repo):
    out = []
    src = os.path.join(repo, "src")
    for root, dirs, files in os.walk(src):
        dirs[:] = sorted(d for d in dirs if d != "__pycache__")
        for f in sorted(files):
            if f.endswith((".pyc", ".so")):
                continue
            out.append(os.path.join(root, f))
    for f in ("Cargo.toml", "Cargo.lock"):
        p = os.path.join(repo, f)
        if os.path.exists(p):
            out.append(p)
    return out


def source_key(repo=None):
    repo = repo or repo_path()
    h = hashlib.sha256()
    h.update(repo.encode())
    for p in _walk_sources(repo):
        h.update(os.path.relpath(p, repo).encode())
        with open(p, "rb") as f:
            h.update(hashlib.sha256(f.read()).digest())
    return h.hexdigest()[:16]


def repo_tag(repo=None):
    repo = repo or repo_path()
    return hashlib.sha256(repo.encode()).hexdigest()[:10]


def _dependencies_block(repo, strip_extension_module):
    text = open(os.path.join(repo, "Cargo.toml")).read()
    m = re.search(r"^\[dependencies\]\s*\n(.*?)(?=^\[)", text, re.S | re.M)
    if not m:
        raise MachineryError("no [dependencies] table in %s/Cargo.toml" % repo)
    block = m.group(1)
    if strip_extension_module:
        block = re.sub(r'"extension-module"\s*,?\s*', "", block)
    return block


def _lock(repo, dest_dir):
    src = os.path.join(repo, "Cargo.lock")
    if not os.path.exists(src):
        src = "/repo/Cargo.lock"
    if os.path.exists(src):
        shutil.copyfile(src, os.path.join(dest_dir, "Cargo.lock"))


def _write_if_changed(path, content):
    if os.path.exists(path) and open(path).read() == content:
        return
    with open(path, "w") as f:
        f.write(content)


def _cargo_env():
    env = dict(os.environ)
    env["CARGO_NET_OFFLINE"] = "true"
    env["PYO3_PYTHON"] = PYTHON
    env.pop("RUSTFLAGS", None)
    env.setdefault("CARGO_TERM_COLOR", "never")
    return env


def _build_artifact(args, cwd, what, want):
    """cargo build with JSON messages; returns the path of the artifact of *this* package (the hashed file under
    deps/, which is unique per package id - the uplifted target/release/<name> is shared between different
    $VERIF_REPO builds and may be overwritten by a concurrent one). want = 'cdylib' | 'bin'."""
    import json as _json

    p = subprocess.run(
        ["cargo"] + args + ["--message-format=json-render-diagnostics"], cwd=cwd, env=_cargo_env(), stdout=subprocess.PIPE, stderr=subprocess.PIPE, text=True
    )
    if p.returncode != 0:
        sys.stderr.write(p.stderr[-6000:])
        raise MachineryError("%s failed to build (cargo exit %d)" % (what, p.returncode))
    found = None
    here = os.path.realpath(cwd)
    for line in p.stdout.splitlines():
        if not line.startswith("{"):
            continue
        try:
            m = _json.loads(line)
        except ValueError:
            continue
        if m.get("reason") != "compiler-artifact":
            continue
        if here not in os.path.realpath(m.get("manifest_path", "")):
            continue
        kinds = m.get("target", {}).get("kind", [])
        if want == "bin" and "bin" in kinds and m.get("executable"):
            found = m["executable"]
        elif want == "cdylib" and "cdylib" in kinds:
            sos = [f for f in m.get("filenames", []) if f.endswith(".so")]
            if sos:
                found = sos[0]
    if not found or not os.path.exists(found):
        raise MachineryError("%s: cargo reported no %s artifact" % (what, want))
    # prefer the hashed twin under deps/ (hard link of the uplifted file), it cannot be overwritten by another package
    d, b = os.path.split(found)
    stem = os.path.splitext(b)[0]
    deps = os.path.join(d, "deps")
    cands = [os.path.join(deps, f) for f in os.listdir(deps)] if os.path.isdir(deps) else []
    try:
        st = os.stat(found)
        for c in cands:
            cs = os.stat(c)
            if (cs.st_ino, cs.st_dev) == (st.st_ino, st.st_dev) and c != found:
                return c
    except OSError:
        pass
    return found


def _run_cargo(args, cwd, what):
    t0 = time.time()
    p = subprocess.run(
        ["cargo"] + args, cwd=cwd, env=_cargo_env(), stdout=subprocess.PIPE, stderr=subprocess.STDOUT, text=True
    )
    if p.returncode != 0:
        sys.stderr.write(p.stdout[-6000:])
        raise MachineryError("%s failed to build (cargo exit %d)" % (what, p.returncode))
    return time.time() - t0


EXT_MANIFEST = """[package]
edition = "2024"
name = "gufo_snmp"
version = "0.0.0"

[lib]
crate-type = ["cdylib"]
name = "gufo_snmp"
path = "{repo}/src/lib.rs"

[features]
default = ["verif"]
verif = []

[dependencies]
{deps}

[profile.release]
lto = "off"
codegen-units = 16
overflow-checks = false
debug = false
strip = "debuginfo"
"""


def build_ext(repo=None, quiet=True):
    """Build and stage the extension. Returns the directory to put on sys.path."""
    repo = repo or repo_path()
    if not os.path.exists(os.path.join(repo, "src", "verif.rs")):
        raise MachineryError("hooks missing: %s/src/verif.rs not found" % repo)
    key = source_key(repo)
    stage = os.path.join(CACHE, "stage", key)
    if os.path.exists(os.path.join(stage, "gufo", "snmp", "_fast.so")):
        return stage
    wdir = os.path.join(CACHE, "ext-" + repo_tag(repo))
    os.makedirs(wdir, exist_ok=True)
    _write_if_changed(
        os.path.join(wdir, "Cargo.toml"),
        EXT_MANIFEST.format(repo=repo, deps=_dependencies_block(repo, False)),
    )
    _lock(repo, wdir)
    target = os.path.join(CACHE, "target-ext")
    os.makedirs(os.path.join(CACHE, "stage"), exist_ok=True)
    import fcntl

    lock = open(os.path.join(CACHE, "build-ext.lock"), "w")
    fcntl.flock(lock, fcntl.LOCK_EX)  # build + copy must not interleave with a build for another $VERIF_REPO
    try:
        if os.path.exists(os.path.join(stage, "gufo", "snmp", "_fast.so")):
            return stage
        so = _build_artifact(["build", "--release", "--offline", "--target-dir", target], wdir, "extension", "cdylib")
        tmp = tempfile.mkdtemp(prefix="stage-", dir=os.path.join(CACHE, "stage"))
        shutil.copyfile(so, os.path.join(tmp, "_fast.so.new"))
    finally:
        fcntl.flock(lock, fcntl.LOCK_UN)
        lock.close()
    shutil.copytree(
        os.path.join(repo, "src", "gufo"),
        os.path.join(tmp, "gufo"),
        ignore=shutil.ignore_patterns("__pycache__", "*.so", "*.pyc"),
    )
    os.rename(os.path.join(tmp, "_fast.so.new"), os.path.join(tmp, "gufo", "snmp", "_fast.so"))
    try:
        os.rename(tmp, stage)
    except OSError:
        shutil.rmtree(tmp, ignore_errors=True)  # somebody else staged it first
    _gc_stage(keep=key)
    return stage


def _gc_stage(keep, max_keep=6):
    d = os.path.join(CACHE, "stage")
    try:
        now = time.time()
        ents = [e for e in os.listdir(d) if e != keep and not e.startswith("stage-") and now - os.path.getmtime(os.path.join(d, e)) > 3 * 3600]
        ents.sort(key=lambda e: os.path.getmtime(os.path.join(d, e)))
        for e in ents[:-max_keep] if len(ents) > max_keep else []:
            shutil.rmtree(os.path.join(d, e), ignore_errors=True)
    except OSError:
        pass


SUBJECT_MANIFEST = """[package]
edition = "2024"
name = "gufo_snmp"
version = "0.0.0"

[lib]
crate-type = ["rlib"]
name = "gufo_snmp"
path = "{repo}/src/lib.rs"

[features]
default = ["verif"]
verif = []

[dependencies]
{deps}
"""

RSX_MANIFEST = """[package]
edition = "2024"
name = "rsx"
version = "0.0.0"

[[bin]]
name = "rsx"
path = "{verif}/rs/src/main.rs"

[dependencies]
gufo_snmp = {{ path = "../subject" }}
md-5 = "0.10"
sha1 = "0.10"
des = "0.8"
aes = "0.8"
cipher = "0.4"
nom = "7.1"

[profile.release]
opt-level = 2
lto = "off"
codegen-units = 16
overflow-checks = false
debug-assertions = true
debug = false
panic = "unwind"

[workspace]
"""


def build_rsx(repo=None):
    """Build the Rust explorer against the current sources; returns the binary path."""
    repo = repo or repo_path()
    if not os.path.exists(os.path.join(repo, "src", "verif.rs")):
        raise MachineryError("hooks missing: %s/src/verif.rs not found" % repo)
    key = source_key(repo) + "-" + _dir_key(os.path.join(VERIF, "rs"))
    bindir = os.path.join(CACHE, "rsxbin")
    out = os.path.join(bindir, "rsx-" + key)
    if os.path.exists(out):
        return out
    base = os.path.join(CACHE, "rs-" + repo_tag(repo))
    os.makedirs(os.path.join(base, "subject"), exist_ok=True)
    os.makedirs(os.path.join(base, "rsx"), exist_ok=True)
    _write_if_changed(
        os.path.join(base, "subject", "Cargo.toml"),
        SUBJECT_MANIFEST.format(repo=repo, deps=_dependencies_block(repo, True)),
    )
    _write_if_changed(os.path.join(base, "rsx", "Cargo.toml"), RSX_MANIFEST.format(verif=VERIF))
    _lock(repo, os.path.join(base, "rsx"))
    target = os.path.join(CACHE, "target-rs")
    os.makedirs(bindir, exist_ok=True)
    import fcntl

    lock = open(os.path.join(CACHE, "build-rs.lock"), "w")
    fcntl.flock(lock, fcntl.LOCK_EX)
    try:
        if os.path.exists(out):
            return out
        exe = _build_artifact(["build", "--release", "--offline", "--target-dir", target], os.path.join(base, "rsx"), "rsx", "bin")
        tmp = out + ".tmp%d" % os.getpid()
        shutil.copyfile(exe, tmp)
    finally:
        fcntl.flock(lock, fcntl.LOCK_UN)
        lock.close()
    os.chmod(tmp, 0o755)
    os.rename(tmp, out)
    # keep the bin dir small
    ents = sorted(
        (e for e in os.listdir(bindir) if e != os.path.basename(out)),
        key=lambda e: os.path.getmtime(os.path.join(bindir, e)),
    )
    for e in ents[:-4] if len(ents) > 4 else []:
        try:
            os.remove(os.path.join(bindir, e))
        except OSError:
            pass
    return out


def _dir_key(d):
    h = hashlib.sha256()
    for root, dirs, files in os.walk(d):
        dirs.sort()
        for f in sorted(files):
            p = os.path.join(root, f)
            h.update(os.path.relpath(p, d).encode())
            with open(p, "rb") as fh:
                h.update(fh.read())
    return h.hexdigest()[:12]


def import_subject(stage):
    """Make `gufo.snmp` importable from the staged directory (in this process)."""
    if stage not in sys.path:
        sys.path.insert(0, stage)
    for k in [k for k in sys.modules if k == "gufo" or k.startswith("gufo.")]:
        del sys.modules[k]
    import gufo.snmp  # noqa: F401

    return sys.modules["gufo.snmp"]
