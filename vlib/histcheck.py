"""Scaffold for checks whose cases are histories run through histories.Runner."""

import re

from . import common, histories
from .drivers import Cfg


def classify(text):
    t = re.sub(r"\[.*?\]$", "", text).strip()
    t = re.sub(r"\(first octets .*?\)", "", t)
    t = re.sub(r"[0-9a-f]{8,}", "#", t)
    t = re.sub(r"-?\d+", "N", t)
    return t[:120]


def salt_problems(trace, cfgs):
    """C14 oracle over the datagrams of one history."""
    probs = []
    groups = {}
    for t in trace:
        groups.setdefault((t["s"], t["inst"]), []).append(t)
    for (s, inst), items in groups.items():
        cfg = cfgs[s]
        if cfg.version != "v3" or not cfg.priv:
            continue
        seen = set()
        prev = None
        refused = 0
        for t in items:
            salt = t["salt"]
            if t.get("kind") == "refused":
                refused += 1  # a request refused before anything was sent may or may not have used up a counter value
                continue
            if t["flags"] is None or salt is None:
                continue
            if len(salt) != 8:
                continue  # reported by the 'salt' clause of the request oracle
            if salt in seen:
                probs.append(("salt", "msgPrivacyParameters %s used twice within one key installation" % salt.hex()))
            seen.add(salt)
            if cfg.priv == 1:
                if salt[:4] != (t["boots"] & 0xFFFFFFFF).to_bytes(4, "big"):
                    probs.append(("salt", "DES salt %s does not start with engine boots %d" % (salt.hex(), t["boots"])))
                ctr, mod = int.from_bytes(salt[4:], "big"), 1 << 32
            else:
                ctr, mod = int.from_bytes(salt, "big"), 1 << 64
            if prev is not None and not 1 <= (ctr - prev) % mod <= 1 + refused:
                probs.append(("salt", "salt counter went from %#x to %#x between consecutive messages%s" % (prev, ctr, (" (%d refused request(s) in between)" % refused) if refused else "")))
            prev = ctr
            refused = 0
    return probs


def make_work(clauses, use_salt_oracle=False):
    def work(chunk):
        res = common.Result()
        for case in chunk:
            res.count("cases")
            probs, r = histories.run_history(case["cfgs"], case["history"], clauses, case.get("force_salt"))
            res.count("datagrams", r.datagrams)
            res.count("api_calls", r.api_calls)
            res.distinct()
            probs = [(c, t) for c, t, _ in probs]
            if use_salt_oracle:
                probs += salt_problems(r.trace, [Cfg.from_desc(d) for d in case["cfgs"]])
            res.outcome(case.get("class", "history"))
            if len(res["samples"]) < 1:
                res.sample(
                    {
                        "class": case.get("class"),
                        "cfgs": [Cfg.from_desc(d).name for d in case["cfgs"]],
                        "history": case["history"][:8],
                        "history_len": len(case["history"]),
                        "datagram_sizes": r.sizes[:12],
                    }
                )
            for c, t in probs:
                small = dict(case)
                res.violation("%s/%s: %s" % (case.get("class", "history"), c, classify(t)), t, small)
        return res

    return work


def replay(case, clauses, use_salt_oracle=False):
    common.prepare_stage()
    probs, r = histories.run_history(case["cfgs"], case["history"], clauses, case.get("force_salt"))
    out = [(c, t) for c, t, _ in probs]
    if use_salt_oracle:
        out += salt_problems(r.trace, [Cfg.from_desc(d) for d in case["cfgs"]])
    return {"problems": out, "datagram_sizes": r.sizes[:40]}


def finish(rec, n_label="cases"):
    n = rec.counters["cases"]
    return rec.finish(
        evaluations=rec.counters["datagrams"],
        distinct_nontrivial=rec.distinct_n,
        states=n,
        transitions=rec.counters["api_calls"],
        traces=n,
    )
