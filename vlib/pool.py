"""Small fork-based worker pool that survives worker death and hangs.

run(func, chunks) calls func(chunk) in worker processes and yields (index, result).
If a worker dies (abort, segfault) or stays silent longer than `timeout` seconds, the chunk
is re-run case by case in throw-away processes to find the culprit; the culprit is reported
as ("crash"|"hang", case) and the remaining cases' results are still collected.
"""

import multiprocessing as mp
import os
import select
import signal
import sys
import time
import traceback

_ctx = mp.get_context("fork")


class CaseFailure:
    def __init__(self, kind, case, detail=""):
        self.kind = kind  # "crash" | "hang" | "error"
        self.case = case
        self.detail = detail


def _worker(conn, func, log_path):
    try:
        if log_path:
            fd = os.open(log_path, os.O_WRONLY | os.O_CREAT | os.O_APPEND, 0o644)
            os.dup2(fd, 2)
            os.close(fd)
        while True:
            try:
                msg = conn.recv()
            except EOFError:
                return
            if msg is None:
                return
            idx, chunk = msg
            try:
                res = func(chunk)
                conn.send((idx, "ok", res))
            except BaseException as e:  # noqa: BLE001
                conn.send((idx, "error", "%s: %s\n%s" % (type(e).__name__, e, traceback.format_exc())))
    finally:
        os._exit(0)


def _run_single(func, case, timeout, log_path):
    """Run func([case]) in a throw-away process. Returns ('ok', res) | ('crash', info) | ('hang', '')."""
    parent, child = _ctx.Pipe()
    p = _ctx.Process(target=_worker, args=(child, func, log_path))
    p.start()
    child.close()
    parent.send((0, [case]))
    try:
        if parent.poll(timeout):
            try:
                _, st, res = parent.recv()
            except EOFError:
                p.join(5)
                return ("crash", "exit code %s" % p.exitcode)
            parent.send(None)
            p.join(5)
            return (st, res)
        p.kill()
        p.join(5)
        return ("hang", "no result within %ss" % timeout)
    finally:
        if p.is_alive():
            p.kill()
        parent.close()


def run(func, chunks, nproc=None, timeout=180, case_timeout=30, log_path=None, on_failure=None):
    """Generator over (index, result). `chunks` is a list of lists of cases.

    on_failure(CaseFailure) is called for every culprit case found after a crash/hang.
    """
    nproc = nproc or min(16, os.cpu_count() or 4)
    chunks = list(chunks)
    nproc = max(1, min(nproc, len(chunks)))
    pending = list(range(len(chunks)))[::-1]
    workers = []  # (proc, conn, current_idx, started)

    def spawn():
        parent, child = _ctx.Pipe()
        p = _ctx.Process(target=_worker, args=(child, func, log_path))
        p.start()
        child.close()
        return [p, parent, None, 0.0]

    def feed(w):
        if pending:
            idx = pending.pop()
            w[2] = idx
            w[3] = time.time()
            w[1].send((idx, chunks[idx]))
            return True
        w[2] = None
        return False

    def diagnose(idx):
        merged = []
        for case in chunks[idx]:
            st, res = _run_single(func, case, case_timeout, log_path)
            if st == "ok":
                merged.append(res)
            else:
                f = CaseFailure(st, case, res if isinstance(res, str) else "")
                if on_failure:
                    on_failure(f)
        return merged

    for _ in range(nproc):
        w = spawn()
        workers.append(w)
        feed(w)
    try:
        while any(w[2] is not None for w in workers):
            conns = [w[1] for w in workers if w[2] is not None]
            ready, _, _ = select.select(conns, [], [], 1.0)
            now = time.time()
            for w in workers:
                if w[2] is None:
                    continue
                if w[1] in ready:
                    try:
                        idx, st, res = w[1].recv()
                    except (EOFError, ConnectionResetError):
                        idx = w[2]
                        w[0].join(5)
                        try:
                            w[1].close()
                        except OSError:
                            pass
                        for r in diagnose(idx):
                            yield idx, r
                        nw = spawn()
                        w[:] = nw
                        feed(w)
                        continue
                    if st == "ok":
                        yield idx, res
                    else:
                        if on_failure:
                            on_failure(CaseFailure("error", None, res))
                    feed(w)
                elif now - w[3] > timeout:
                    idx = w[2]
                    try:
                        w[0].kill()
                    except OSError:
                        pass
                    w[0].join(5)
                    w[1].close()
                    for r in diagnose(idx):
                        yield idx, r
                    nw = spawn()
                    w[:] = nw
                    feed(w)
    finally:
        for w in workers:
            try:
                w[1].send(None)
            except (OSError, ValueError):
                pass
        for w in workers:
            w[0].join(2)
            if w[0].is_alive():
                w[0].kill()


def chunked(seq, size):
    buf = []
    for x in seq:
        buf.append(x)
        if len(buf) >= size:
            yield buf
            buf = []
    if buf:
        yield buf
