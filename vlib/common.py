"""Shared helpers for check modules."""

import os

from . import build, pool
from .evidence import Recorder


def prepare_stage():
    """Build (or reuse) the staged extension in the parent, export for workers."""
    stage = build.build_ext()
    os.environ["VERIF_STAGE"] = stage
    # load libcrypto now: ctypes.util.find_library forks helpers, and a SIGCHLD in a
    # worker would interrupt the sync client's blocking recv (EINTR -> OSError)
    from . import refcrypto

    refcrypto._load_lib()
    return stage


def log_path(pid):
    d = os.path.join(build.CACHE, "logs")
    os.makedirs(d, exist_ok=True)
    return os.path.join(d, "%s.stderr.log" % pid)


def run_cases(rec, func, cases, chunk=200, nproc=None, timeout=240, case_timeout=40):
    """Run func(chunk_of_cases) -> result dict over all cases in parallel; merge into rec."""
    chunks = list(pool.chunked(cases, chunk))
    lp = log_path(rec.pid)
    try:
        os.remove(lp)
    except OSError:
        pass

    def on_failure(f):
        if f.kind == "error":
            rec.machinery_errors.append("worker exception: %s" % f.detail[-800:])
        elif f.kind == "crash":
            rec.violation(
                "process-abort/" + _case_class(f.case),
                "the process died while executing this case (%s)" % f.detail,
                f.case,
            )
        else:
            rec.violation(
                "fails-to-return/" + _case_class(f.case),
                "no result within the per-case watchdog (%s)" % f.detail,
                f.case,
            )

    for _, res in pool.run(func, chunks, nproc=nproc, timeout=timeout, case_timeout=case_timeout, log_path=lp, on_failure=on_failure):
        rec.merge(res)
    return len(chunks)


def _case_class(case):
    if isinstance(case, dict):
        return str(case.get("class") or case.get("kind") or case.get("cfg") or "case")
    return "case"


class Result(dict):
    """Worker-side accumulator with the shape Recorder.merge expects."""

    def __init__(self):
        super().__init__(counters={}, outcomes={}, samples=[], violations=[], distinct_n=0, caps=[], machinery=[])

    def count(self, k, n=1):
        self["counters"][k] = self["counters"].get(k, 0) + n

    def outcome(self, k, n=1):
        self["outcomes"][k] = self["outcomes"].get(k, 0) + n

    def sample(self, s):
        if len(self["samples"]) < 3:
            self["samples"].append(s)

    def violation(self, sig, desc, case):
        if not any(v[0] == sig for v in self["violations"]):
            self["violations"].append((sig, desc, case))

    def distinct(self, n=1):
        self["distinct_n"] += n
