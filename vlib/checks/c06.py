"""C06 - a walk never leaves its subtree, never goes backwards, always ends.

Adversarial agent: the default answer to every request is the RFC-conformant one over a hidden
MIB; a strategy deviates from it by substituting, deleting or inserting varbinds (each costs one
deviation). All strategies with a bounded number of deviations within the first H requests are
enumerated against the iterator objects of both public clients. Oracle: an executable,
deliberately permissive specification of the walk written from the property text, simulated
as an NFA over the observed transcript (requests seen, replies sent, items yielded, how it ended).
"""

import itertools

from .. import common, drivers, refber as rb, values
from ..drivers import Cfg
from ..refagent import Mib, RefAgent

PROPERTY = "C06"
LEVEL = "model_checking"
MODULE = __name__

R = (1, 3, 6, 1, 4, 1, 9)
BASE = R + (1,)
A, B, C = BASE + (2,), BASE + (200,), BASE + (16434,)
BEFORE, AFTER = R[:-1] + (8,), R + (2,)
LONG = C + (1,) * (128 - len(C))  # a name of exactly 128 sub-identifiers, the last row of the subtree
OIDS = {"base": BASE, "a": A, "b": B, "c": C, "before": BEFORE, "after": AFTER, "deep": BASE + (200, 0), "long": LONG}
VALS = {"int": rb.enc_int(7), "null": b"\x05\x00", "nso": b"\x80\x00", "nsi": b"\x81\x00", "eom": b"\x82\x00"}
NONDATA = ("null", "nso", "nsi", "eom")
MIB = Mib([(o, rb.enc_int(i + 1), i + 1) for i, o in enumerate((BEFORE, A, B, C, LONG, AFTER))])
HORIZON = 5
MAX_REQUESTS = 14

FULL_MENU = [(o, v) for o in OIDS for v in VALS]
REDUCED_MENU = [(o, v) for o in ("base", "a", "b", "after") for v in ("int", "eom", "nso")]


def default_reply(method, req_oid, max_rep):
    """Conformant varbinds as [(oid_name_or_arcs, value_name_or_tlv)] in concrete form."""
    out = []
    oid = tuple(req_oid)
    n = 1 if method == "getnext" else max_rep
    for _ in range(n):
        e = MIB.successor(oid)
        if e is None:
            out.append((oid, VALS["eom"]))
        else:
            out.append((e[0], e[1]))
            oid = e[0]
    return out


def deviations_for(default_len, menu):
    devs = []
    for pos in range(default_len):
        devs.append(("del", pos))
        for m in menu:
            devs.append(("sub", pos, m[0], m[1]))
    for pos in range(default_len + 1):
        for m in menu:
            devs.append(("ins", pos, m[0], m[1]))
    return devs


def apply(reply, dev):
    reply = list(reply)
    kind, pos = dev[0], dev[1]
    if pos > len(reply) or (kind != "ins" and pos >= len(reply)):
        return reply, False
    if kind == "del":
        del reply[pos]
    elif kind == "sub":
        nv = (OIDS[dev[2]], VALS[dev[3]])
        if reply[pos] == nv:
            return reply, False
        reply[pos] = nv
    else:
        reply.insert(pos, (OIDS[dev[2]], VALS[dev[3]]))
    return reply, True


# ------------------------------------------------------------------ specification (NFA over the transcript)


def value_kind(tlv):
    t = tlv[0]
    if t == 0x05:
        return "null"
    if t in (0x80, 0x81):
        return "nosuch"
    if t == 0x82:
        return "eom"
    return "data"


def in_subtree(oid):
    return len(oid) > len(BASE) and tuple(oid[: len(BASE)]) == BASE


def spec_step(method, state, reply):
    """state = (last_accepted, base_yielded). Returns a set of (yields tuple, next) where next is
    ('cont', state) | ('stop',) | ('error',)."""
    last, by = state
    outs = set()
    n = len(reply)
    if method == "getnext":
        if n == 0:
            return {((), ("stop",))}
        if n >= 2:
            return {((), ("stop",)), ((), ("error",))}
        oid, tlv = reply[0]
        k = value_kind(tlv)
        if k in ("null", "eom"):
            return {((), ("stop",))}
        if k == "nosuch":
            return {((), ("stop",)), ((), ("error",))}
        return _data_item(oid, last, by, lambda: {((), ("stop",))}, single=True)
    # bulk: explore varbind by varbind
    if n == 0:
        return {((), ("stop",))}
    frontier = {((), last, by)}
    for oid, tlv in reply:
        nxt = set()
        for ys, l, b in frontier:
            k = value_kind(tlv)
            if k != "data":
                nxt.add((ys, l, b))
                continue
            oid = tuple(oid)
            if oid == BASE:
                outs.add((ys, ("stop",)))
                if not b and l == BASE:
                    nxt.add((ys + (oid,), l, True))
                continue
            if not in_subtree(oid):
                outs.add((ys, ("stop",)))
                continue
            if oid <= l and not (l == BASE and not b and oid > BASE):
                pass
            if oid <= l:
                outs.add((ys, ("stop",)))
                outs.add((ys, ("error",)))
                outs.add(((), ("error",)))
                continue
            nxt.add((ys + (oid,), oid, b))
        frontier = nxt
    for ys, l, b in frontier:
        if not ys:
            outs.add(((), ("stop",)))
        else:
            outs.add((ys, ("cont", (l, b))))
    return outs


def _data_item(oid, last, by, stop, single):
    oid = tuple(oid)
    if oid == BASE:
        res = {((), ("stop",))}
        if not by and last == BASE:
            res.add(((oid,), ("cont", (BASE, True))))
        return res
    if not in_subtree(oid):
        return {((), ("stop",))}
    if oid <= last:
        return {((), ("stop",)), ((), ("error",))}
    return {((oid,), ("cont", (oid, by)))}


def judge_transcript(method, requests, replies, yielded, end):
    """requests: list of OIDs asked; replies: list of varbind lists sent; yielded: list of OID tuples;
    end: 'stop' | 'error' | 'other:<name>' | 'runaway'. Returns None or a problem text."""
    if end == "runaway":
        return "walk still requesting after %d requests (no termination)" % len(requests)
    if end.startswith("other"):
        return "walk ended with %s" % end[6:]
    # containment / monotonicity straight from the property text
    prev = None
    for y in yielded:
        if not (in_subtree(y) or y == BASE):
            return "yielded %s which is outside the subtree" % rb.oid_str(y)
        if prev is not None and not y > prev:
            return "yielded %s after %s (not strictly increasing)" % (rb.oid_str(y), rb.oid_str(prev))
        prev = y
    # NFA simulation
    configs = {(0, (BASE, False))}  # (position in yielded, state)
    for i, rep in enumerate(replies):
        if i >= len(requests):
            break
        nxt = set()
        final = set()
        for pos, st in configs:
            if tuple(requests[i]) != st[0]:
                continue
            for ys, nx in spec_step(method, st, rep):
                if tuple(yielded[pos : pos + len(ys)]) != ys:
                    continue
                if nx[0] == "cont":
                    nxt.add((pos + len(ys), nx[1]))
                else:
                    final.add((pos + len(ys), nx[0]))
        last_reply = i == len(replies) - 1
        if last_reply:
            if len(requests) > len(replies):
                return "request %d was never answered by the harness" % len(replies)
            ok = any(pos == len(yielded) and kind == end for pos, kind in final)
            if ok:
                return None
            if nxt and not final:
                return "walk stopped (%s) although the last reply carried acceptable data and nothing ended it" % end
            return "transcript not accepted by the specification: requests %s, yielded %s, ended with %s; after the last reply the specification allows %s" % (
                [rb.oid_str(r) for r in requests],
                [rb.oid_str(y) for y in yielded],
                end,
                sorted({k for _, k in final}) or "only continuation",
            )
        if not nxt:
            if final:
                return "walk sent request %d (%s) although the specification ends the walk after reply %d" % (i + 2, rb.oid_str(requests[i + 1]) if i + 1 < len(requests) else "?", i + 1)
            return "request %d was for %s, not for the last accepted OID" % (i + 1, rb.oid_str(requests[i]))
        configs = nxt
    return "no replies"


# ------------------------------------------------------------------ execution


class Scripted:
    def __init__(self, cfg):
        self.cfg = cfg

    def arm(self, method, max_rep, devs):
        self.method = method
        self.max_rep = max_rep
        self.devs = devs  # list of (step, dev)
        self.requests = []
        self.replies = []
        self.applied = 0
        self.horizon = MAX_REQUESTS
        self.malformed = None

    def __call__(self, data, idx=None):
        try:
            req = drivers.open_request(self.cfg, data, strict=False, check_mac=False)
            if not req.oids:
                raise ValueError("no OID")
        except Exception as e:  # noqa: BLE001 - the subject sent something no agent can answer
            self.malformed = "%s: %s" % (type(e).__name__, str(e)[:80])
            return []
        step = len(self.requests)
        self.requests.append(req.oids[0])
        if getattr(self, "drop_at", None) == step:
            self.drop_at = None
            self.replies.append([])
            return []  # this one reply is lost
        if step >= getattr(self, "horizon", MAX_REQUESTS):
            return []  # horizon: stop answering, the client will time out -> 'runaway'
        n = req.b if req.pdu_tag == rb.PDU_GETBULK else 1
        rep = default_reply("getbulk" if req.pdu_tag == rb.PDU_GETBULK else "getnext", req.oids[0], n)
        for st, dev in self.devs:
            if st == step:
                rep, changed = apply(rep, dev)
                self.applied += changed
        if getattr(self, "double_at", None) == step:
            # once: the reply to a GETNEXT carries two rows (the next one and the one after it)
            self.double_at = None
            rep = default_reply("getbulk", req.oids[0], 2)
        self.replies.append(rep)
        return [drivers.reply_for(self.cfg, req, rep)]


def end_kind(out):
    mod, fast = drivers.subject()
    if out.kind == "ok":
        return "stop"
    if isinstance(out.exc, TimeoutError):
        return "runaway"
    if isinstance(out.exc, fast.SnmpError):
        return "error"
    return "other:" + out.exc_name


def collect_sync(it):
    got = []
    try:
        for x in it:
            got.append(x)
            if len(got) > 60:
                return got, drivers.Outcome("exc", exc=TimeoutError("too many items"))
        return got, drivers.Outcome("ok", None)
    except BaseException as e:  # noqa: BLE001
        if isinstance(e, (KeyboardInterrupt, SystemExit, MemoryError)):
            raise
        return got, drivers.Outcome("exc", exc=e)


def run_block(case, res):
    cfg = Cfg.from_desc(case["cfg"])
    method, max_rep = case["method"], case["max_rep"]
    sc = Scripted(cfg)
    base = rb.oid_str(BASE)
    strategies = case["strategies"]
    if case["driver"] == "sync":
        w = drivers.SyncWorld(cfg, sc, timeout=4.0, max_repetitions=max_rep or 3)
        try:
            for devs in strategies:
                for attempt in range(2):
                    sc.arm(method, max_rep, devs)
                    it = w.session.getnext(base) if method == "getnext" else w.session.getbulk(base, max_rep)
                    got, out = collect_sync(it)
                    if not spurious(sc, out):
                        break
                    res.count("timeouts_retried")
                evaluate(res, case, cfg, devs, sc, got, out)
            if w.errors:
                res["machinery"].append("agent errors %s" % w.errors[:2])
        finally:
            w.close()
    else:

        async def client(s):
            for devs in strategies:
                for attempt in range(2):
                    sc.arm(method, max_rep, devs)
                    it = s.getnext(base) if method == "getnext" else s.getbulk(base, max_rep)
                    got = []
                    try:
                        async for x in it:
                            got.append(x)
                            if len(got) > 60:
                                raise TimeoutError("too many items")
                        out = drivers.Outcome("ok", None)
                    except BaseException as e:  # noqa: BLE001
                        if isinstance(e, (KeyboardInterrupt, SystemExit, MemoryError)):
                            raise
                        out = drivers.Outcome("exc", exc=e)
                    if not spurious(sc, out):
                        break
                    res.count("timeouts_retried")
                evaluate(res, case, cfg, devs, sc, got, out)

        o, reqs, errs = drivers.run_async(cfg, sc, client, timeout=4.0, max_repetitions=max_rep or 3)
        if errs:
            res["machinery"].append("agent errors %s" % errs[:2])
        if o.kind != "ok":
            if isinstance(o.exc, TooManyViolations):
                raise o.exc
            res["machinery"].append("async driver failed %r" % (o.brief(),))


def spurious(sc, out):
    """A time-out although the scripted agent answered every request it saw: repeated once before it is judged."""
    return out.kind == "exc" and isinstance(out.exc, TimeoutError) and len(sc.requests) <= MAX_REQUESTS and "too many items" not in str(out.exc) and not sc.malformed


class TooManyViolations(Exception):
    pass


def evaluate(res, case, cfg, devs, sc, got, out):
    if res["counters"].get("violating_walks", 0) > 10:
        raise TooManyViolations()
    res.count("walks")
    res.count("requests", len(sc.requests))
    if sc.applied:
        res.distinct()
    yielded = []
    bad_item = None
    for x in got:
        if isinstance(x, tuple) and len(x) == 2 and isinstance(x[0], str):
            yielded.append(rb.oid_arcs(x[0]))
        else:
            bad_item = x
    end = end_kind(out)
    if sc.malformed:
        res.count("violating_walks")
        small = dict(case)
        small["strategies"] = [devs]
        res.violation("%s/%s/%s: request no agent can decode" % (case["driver"], cfg.version, case["method"]), "deviations %s: after %d requests the walk sent a datagram the agent could not decode (%s) and ended with %s" % (devs, len(sc.requests), sc.malformed, end), small)
        return
    if end == "runaway" and len(sc.requests) <= MAX_REQUESTS and not (out.exc is not None and "too many items" in str(out.exc)):
        # a time-out although the scripted agent answered every request: the host stalled, not the walk
        res["machinery"].append("spurious time-out after %d requests (host overloaded?) for deviations %s" % (len(sc.requests), devs))
        return
    res.outcome(end.split(":")[0])
    prob = "yielded a non-pair item %r" % (bad_item,) if bad_item is not None else judge_transcript(case["method"], sc.requests, sc.replies, yielded, end)
    if prob:
        res.count("violating_walks")
        small = dict(case)
        small["strategies"] = [devs]
        res.violation(
            "%s/%s/%s: %s" % (case["driver"], cfg.version, case["method"], _cls(prob)),
            "deviations %s: %s | replies sent: %s" % (devs, prob, [[(rb.oid_str(o).replace(rb.oid_str(R), "R"), v.hex()) for o, v in rp] for rp in sc.replies][:6]),
            small,
        )
    elif len(res["samples"]) < 2 and sc.applied >= 1 and len(sc.requests) >= 2:
        res.sample({"driver": case["driver"], "method": case["method"], "deviations": devs, "requests": [rb.oid_str(r) for r in sc.requests], "yielded": [rb.oid_str(y) for y in yielded], "end": end})


# ------------------------------------------------------------------ a reply lost in the middle of a walk


def loss_cases(tier):
    for driver in ("sync", "async"):
        for method, mr in (("getnext", None), ("getbulk", 2), ("getbulk", 3), ("getbulk", 10)):
            yield {"driver": driver, "cfg": Cfg("v2c").describe(), "method": method, "max_rep": mr, "lost": [0, 1, 2, 3, 4]}


def refused_cases(tier):
    for driver in ("sync", "async"):
        yield {"driver": driver, "cfg": Cfg("v2c").describe(), "method": "getnext", "max_rep": None, "lost": [0, 1, 2, 3, 4], "refused": True}


def run_loss(case, res):
    """The reply to the k-th request is lost: next() raises TimeoutError; the caller asks the same iterator again.
    Over the whole walk every row is yielded once, in order."""
    cfg = Cfg.from_desc(case["cfg"])
    method, max_rep = case["method"], case["max_rep"]
    sc = Scripted(cfg)
    base = rb.oid_str(BASE)
    want = [(rb.oid_str(o), i + 2) for i, o in enumerate((A, B, C, LONG))]

    def mk(s):
        return s.getnext(base) if method == "getnext" else s.getbulk(base, max_rep)

    def norm(x):
        return (x[0], x[1]) if isinstance(x, tuple) and len(x) == 2 else x

    def check(k, got, timeouts, end):
        res.count("walks")
        res.count("requests", len(sc.requests))
        res.distinct()
        res.outcome("lost-reply")
        prob = None
        # an implementation may go on after the TimeoutError (then every row comes once, in order) or end the walk there
        # (StopIteration / an error on the next call): what was yielded must be a prefix of the subtree either way
        if got != want[: len(got)]:
            prob = "yielded %r over the whole walk, the agent holds %r" % ([g[0].replace(rb.oid_str(R), "R") if isinstance(g, tuple) else g for g in got][:12], [w[0].replace(rb.oid_str(R), "R") for w in want])
        elif end == "stop" and timeouts == 0 and got != want:
            prob = "walk ended normally after %d of %d rows although no call failed" % (len(got), len(want))
        if prob:
            res.count("violating_walks", 9)
            small = dict(case)
            small["lost"] = [k]
            what = "refused-reply" if case.get("refused") else "lost-reply"
            res.violation("%s/%s-%s: %s" % (case["driver"], what, method, _cls(prob)), "reply to request #%d %s, the same iterator asked again after the error: %s" % (k, "carried two rows (refused or not)" if case.get("refused") else "lost", prob), small)

    if case["driver"] == "sync":
        w = drivers.SyncWorld(cfg, sc, timeout=0.15, max_repetitions=max_rep or 3)
        try:
            for k in case["lost"]:
                sc.arm(method, max_rep, [])
                if case.get("refused"):
                    sc.double_at = k
                else:
                    sc.drop_at = k
                it = iter(mk(w.session))
                got, timeouts, end = [], 0, None
                while end is None and len(got) < 30 and timeouts < 4:
                    try:
                        got.append(norm(next(it)))
                    except StopIteration:
                        end = "stop"
                    except TimeoutError:
                        timeouts += 1
                    except Exception as e:  # noqa: BLE001
                        if case.get("refused") and isinstance(e, drivers.subject()[1].SnmpError):
                            timeouts += 1  # the reply was refused; the caller goes on with the same iterator
                        else:
                            end = "raised " + type(e).__name__
                check(k, got, timeouts, end or "no end")
            if w.errors:
                res["machinery"].append("agent errors %s" % w.errors[:2])
        finally:
            w.close()
    else:

        async def client(s):
            for k in case["lost"]:
                sc.arm(method, max_rep, [])
                if case.get("refused"):
                    sc.double_at = k
                else:
                    sc.drop_at = k
                it = mk(s).__aiter__()
                got, timeouts, end = [], 0, None
                while end is None and len(got) < 30 and timeouts < 4:
                    try:
                        got.append(norm(await it.__anext__()))
                    except StopAsyncIteration:
                        end = "stop"
                    except TimeoutError:
                        timeouts += 1
                    except Exception as e:  # noqa: BLE001
                        if case.get("refused") and isinstance(e, drivers.subject()[1].SnmpError):
                            timeouts += 1
                        else:
                            end = "raised " + type(e).__name__
                check(k, got, timeouts, end or "no end")

        o, reqs, errs = drivers.run_async(cfg, sc, client, timeout=0.15, max_repetitions=max_rep or 3)
        if errs:
            res["machinery"].append("agent errors %s" % errs[:2])
        if o.kind != "ok":
            if isinstance(o.exc, TooManyViolations):
                raise o.exc
            res["machinery"].append("async driver failed %r" % (o.brief(),))


# ------------------------------------------------------------------ interleaved / abandoned iterators


def interleave_cases(tier):
    depth = 6 if tier == "thorough" else 5
    for driver in ("sync", "async"):
        for method, mr in (("getnext", None), ("getbulk", 2), ("getbulk", 3), ("getbulk", 10)):
            for nsess in (1, 2):
                seqs = [list(q) for n in range(1, depth + 1) for q in itertools.product((0, 1), repeat=n)]
                yield {"driver": driver, "cfg": Cfg("v2c").describe(), "method": method, "max_rep": mr, "sessions": nsess, "seqs": seqs}


def run_interleave(case, res):
    """Two iterators over the same subtree advanced in every order, then abandoned; then a fresh complete walk.
    Every item an iterator yields must be the next entry of *its own* walk."""
    cfg = Cfg.from_desc(case["cfg"])
    method, max_rep = case["method"], case["max_rep"]
    sc = Scripted(cfg)
    base = rb.oid_str(BASE)
    want = [(rb.oid_str(o), i + 2) for i, o in enumerate((A, B, C, LONG))]

    bad = [0]

    def mk(s):
        return s.getnext(base) if method == "getnext" else s.getbulk(base, max_rep)

    def check(seq, log, final):
        res.count("walks", 3)
        res.count("requests", len(sc.requests))
        res.distinct()
        pos = [0, 0]
        prob = None
        dead = set()
        for idx, item in log:
            if idx in dead:
                continue
            if isinstance(item, str) and item.startswith("raised "):
                dead.add(idx)  # an implementation may refuse interleaved walks with an error; only yielded rows are judged
                continue
            exp = want[pos[idx]] if pos[idx] < len(want) else "stop"
            if item != exp:
                prob = "iterator %d yielded %r as its item #%d, its own walk has %r there" % (idx, item, pos[idx] + 1, exp)
                break
            pos[idx] += 1
        if prob is None and final != want + ["stop"]:
            prob = "a fresh walk after the abandoned ones yielded %r, the agent holds %r" % (final, want)
        res.outcome("interleaved")
        if prob:
            bad[0] += 1
            small = dict(case)
            small["seqs"] = [seq]
            res.violation(
                "%s/interleaved-%s/%d-session(s): %s" % (case["driver"], method, case["sessions"], _cls(prob)),
                "next() order %s (then both abandoned): %s" % (seq, prob),
                small,
            )
            if bad[0] >= 6:
                raise TooManyViolations()

    def norm(x):
        return (x[0], x[1]) if isinstance(x, tuple) and len(x) == 2 else x

    if case["driver"] == "sync":
        from gufo.snmp.sync_client import SnmpSession

        w = drivers.SyncWorld(cfg, sc, timeout=4.0, max_repetitions=max_rep or 3)
        s2 = SnmpSession(**dict(drivers.session_kwargs(cfg, w.port, 4.0), max_repetitions=max_rep or 3)) if case["sessions"] == 2 else w.session
        try:
            for seq in case["seqs"]:
                sc.arm(method, max_rep, [])
                sc.horizon = 10**6
                its = [iter(mk(w.session)), iter(mk(s2))]
                done = [False, False]
                log = []
                for idx in seq:
                    if done[idx]:
                        continue
                    try:
                        log.append((idx, norm(next(its[idx]))))
                    except StopIteration:
                        done[idx] = True
                        log.append((idx, "stop"))
                    except Exception as e:  # noqa: BLE001
                        done[idx] = True
                        log.append((idx, "raised " + type(e).__name__))
                del its
                got, out = collect_sync(mk(w.session))
                check(seq, log, [norm(x) for x in got] + [end_kind(out)])
            if w.errors:
                res["machinery"].append("agent errors %s" % w.errors[:2])
        finally:
            w.close()
    else:

        async def client(s):
            s2 = type(s)(**s._verif_kw) if case["sessions"] == 2 else s
            for seq in case["seqs"]:
                sc.arm(method, max_rep, [])
                sc.horizon = 10**6
                its = [mk(s).__aiter__(), mk(s2).__aiter__()]
                done = [False, False]
                log = []
                for idx in seq:
                    if done[idx]:
                        continue
                    try:
                        log.append((idx, norm(await its[idx].__anext__())))
                    except StopAsyncIteration:
                        done[idx] = True
                        log.append((idx, "stop"))
                    except Exception as e:  # noqa: BLE001
                        done[idx] = True
                        log.append((idx, "raised " + type(e).__name__))
                del its
                final = []
                try:
                    async for x in mk(s):
                        final.append(norm(x))
                    final.append("stop")
                except Exception as e:  # noqa: BLE001
                    final.append("raised " + type(e).__name__)
                check(seq, log, final)

        o, reqs, errs = drivers.run_async(cfg, sc, client, timeout=4.0, max_repetitions=max_rep or 3)
        if errs:
            res["machinery"].append("agent errors %s" % errs[:2])
        if o.kind != "ok":
            if isinstance(o.exc, TooManyViolations):
                raise o.exc
            res["machinery"].append("async driver failed %r" % (o.brief(),))


def _cls(t):
    import re

    return re.sub(r"\[.*?\]", "[..]", re.sub(r"\d+(\.\d+)+", "OID", t))[:100]


def work(chunk):
    res = common.Result()
    for case in chunk:
        try:
            if "seqs" in case:
                run_interleave(case, res)
            elif "lost" in case:
                run_loss(case, res)
            else:
                run_block(case, res)
        except TooManyViolations:
            res["caps"].append("a block of strategies was abandoned after 10 violating walks")
        res.count("cases")
    return res


def strategies(method, max_rep, D, menu_full, menu_more):
    """All deviation sets of size <= D within the first HORIZON requests. The first deviation of a
    multi-deviation strategy uses the full menu, further ones the (possibly reduced) menu."""
    nvb = 1 if method == "getnext" else max_rep
    full = [(st, d) for st in range(HORIZON) for d in deviations_for(nvb, menu_full)]
    more = [(st, d) for st in range(HORIZON) for d in deviations_for(nvb, menu_more)]
    yield []
    if D >= 1:
        for a in full:
            yield [a]
    if D >= 2:
        for a in full:
            for b in more:
                if (b[0], b[1][1]) > (a[0], a[1][1]) or (b[0] == a[0] and b[1][1] == a[1][1] and repr(b) > repr(a)):
                    yield [a, b]
    if D >= 3:
        for a, b, c in itertools.combinations(more, 3):
            yield [a, b, c]


def gen_cases(tier):
    thorough = tier == "thorough"
    plans = []
    if thorough:
        plans += [("sync", Cfg("v2c"), "getnext", None, 2, FULL_MENU, FULL_MENU), ("sync", Cfg("v2c"), "getbulk", 3, 2, FULL_MENU, REDUCED_MENU)]
        plans += [("async", Cfg("v2c"), "getnext", None, 2, FULL_MENU, REDUCED_MENU), ("async", Cfg("v2c"), "getbulk", 3, 2, FULL_MENU, REDUCED_MENU)]
        plans += [("sync", Cfg("v1"), "getnext", None, 2, FULL_MENU, REDUCED_MENU), ("sync", Cfg("v3"), "getbulk", 2, 2, FULL_MENU, REDUCED_MENU)]
        plans += [("sync", Cfg("v2c"), "getbulk", 2, 3, REDUCED_MENU, REDUCED_MENU)]
    else:
        plans += [("sync", Cfg("v2c"), "getnext", None, 2, FULL_MENU, REDUCED_MENU), ("sync", Cfg("v2c"), "getbulk", 3, 1, FULL_MENU, REDUCED_MENU)]
        plans += [("sync", Cfg("v2c"), "getbulk", 2, 2, REDUCED_MENU, REDUCED_MENU)]
        plans += [("async", Cfg("v2c"), "getnext", None, 1, FULL_MENU, REDUCED_MENU), ("async", Cfg("v2c"), "getbulk", 3, 1, FULL_MENU, REDUCED_MENU)]
        plans += [("sync", Cfg("v1"), "getnext", None, 1, FULL_MENU, REDUCED_MENU), ("sync", Cfg("v3", auth=1), "getbulk", 2, 1, FULL_MENU, REDUCED_MENU)]
    for driver, cfg, method, mr, D, mf, mm in plans:
        block = []
        for st in strategies(method, mr, D, mf, mm):
            block.append(st)
            if len(block) >= 400:
                yield {"driver": driver, "cfg": cfg.describe(), "method": method, "max_rep": mr, "strategies": block, "D": D}
                block = []
        if block:
            yield {"driver": driver, "cfg": cfg.describe(), "method": method, "max_rep": mr, "strategies": block, "D": D}


def replay(case):
    common.prepare_stage()
    res = common.Result()
    case = dict(case)
    if "lost" in case:
        run_loss(case, res)
        return {"violations": [(v[0], v[1]) for v in res["violations"]]}
    if "seqs" in case:
        run_interleave(case, res)
        return {"violations": [(v[0], v[1]) for v in res["violations"]]}
    case["strategies"] = [[(st, tuple(d)) for st, d in devs] for devs in case["strategies"]]
    run_block(case, res)
    return {"violations": [(v[0], v[1]) for v in res["violations"]]}


def run(tier):
    common.prepare_stage()
    rec = common.Recorder(PROPERTY, tier, LEVEL, MODULE)
    rec.rule = (
        "agent strategies = sets of <=D varbind-level deviations (substitute / delete / insert over 8 OIDs {base, 3 in-subtree, a child, a 128-sub-identifier name, before, after} x 5 values "
        "{Int, NULL, noSuchObject, noSuchInstance, endOfMibView}) applied within the first %d requests to the RFC-conformant answers; getnext and getbulk; sync and async "
        "iterators. Non-trivial = at least one deviation actually changed a reply. Plus: two iterators over the same subtree (one or two sessions) advanced in every "
        "order of <= %d next() calls and then abandoned, followed by a fresh complete walk - each item must be the next entry of the iterator's own walk. Plus: the reply to the k-th request (k = 0..4) lost once, the same iterator asked again after the TimeoutError - every row once, in order." % (HORIZON, 6 if tier == "thorough" else 5)
    )
    rec.assume(
        "specification is permissive where the property is silent: NULL/exception varbinds in a bulk reply are transparent; a non-increasing OID must not be yielded and "
        "ends the walk normally or with SnmpError; noSuch* in a GETNEXT reply ends normally or with SnmpError; the base OID itself may be yielded once or end the walk; "
        "a GETNEXT reply with >= 2 varbinds ends normally or with SnmpError",
        "horizon: a walk that sends more than %d requests is reported as non-terminating" % MAX_REQUESTS,
    )
    cases = list(gen_cases(tier)) + list(interleave_cases(tier)) + list(loss_cases(tier)) + list(refused_cases(tier))
    common.run_cases(rec, work, cases, chunk=1, timeout=900, case_timeout=300)
    n = rec.counters["walks"]
    return rec.finish(evaluations=n, distinct_nontrivial=rec.distinct_n, states=n, transitions=rec.counters["requests"], traces=n)
