"""C09 - every outgoing authenticated message carries a correct HMAC-96.

Enumerates message shapes that move the authentication-parameter offset (engine-id and user-name
lengths, widths of boots/time, PDU sizes crossing every short/long-form boundary, request types),
digests, ciphers, key types, and preceding histories on the shared buffer pool. The MAC of every
captured datagram is recomputed with hashlib/hmac under an independently derived key.
"""

import itertools

from .. import common, histcheck
from ..drivers import Cfg

PROPERTY = "C09"
LEVEL = "model_checking"
MODULE = __name__
CLAUSES = ("mac",)

work = histcheck.make_work(CLAUSES)


def sweep_history(step, variants):
    h = []
    for v in variants:
        for n in range(2, 129, step):
            h.append(["get_n", 0, n])
        for k, n in ((1, 2), (1, 60), (1, 128), (2, 2), (2, 100)):
            h.append(["get_many_kn", 0, k, n])
        for k in (7, 15, 25, 28):
            h.append(["get_many_kn", 0, k, 3])
        h += [["getnext", 0, "long"], ["getbulk", 0, "big", 2147483647], ["refresh", 0], ["get_many", 0, "none"], ["getbulk", 0, "sys", 1]]
        h.append(["reply", 0, "ok", v])
    return h


PREFIXES = [
    [],
    [["oversize", 0]],
    [["oversize", 1]],
    [["get", 1, "sys"]],
    [["get_many", 1, "forty"], ["reply", 1, "ok", 0]],
    [["getbulk", 1, "big", 2147483647], ["oversize", 0]],
    [["get", 0, "sys"], ["reply", 0, "garbage"]],
    [["refresh", 0], ["reply", 0, "report", 1]],
    [["get_many", 0, "forty"], ["timeout", 0]],
    [["oversize", 1], ["get", 1, "sys"]],
    [["get", 0, "sys"], ["reply", 0, "report-foreign"]],
    [["refresh", 0], ["reply", 0, "ok-foreign"]],
]
FINALS = [["get", 0, "sys"], ["get_many", 0, "forty"], ["getbulk", 0, "sys", 20], ["refresh", 0], ["getnext", 0, "long"], ["get_many", 0, "none"]]


def gen_cases(tier):
    thorough = tier == "thorough"
    eids = [5, 12, 17, 32] if thorough else [5, 32]
    users = [1, 8, 32] if thorough else [1, 32]
    kts = [0, 1, 2] if thorough else [0, 2]
    for el, ul, auth, priv, kt in itertools.product(eids, users, (1, 2), (0, 1, 2), kts):
        cfg = Cfg("v3", auth=auth, priv=priv, key_type=kt, engine_id=bytes(range(0x80, 0x80 + el)), user="u" * ul)
        yield {
            "class": "size-sweep",
            "cfgs": [cfg.describe()],
            "history": sweep_history(1 if thorough else 3, range(6) if thorough else (0, 1, 2)),
        }
    # identifiers that look like the zero placeholder of the MAC field (>= 12 zero octets in the engine id / user name)
    zero_ids = [
        bytes.fromhex("80001f8802") + b"\x00" * 13 + b"\x01",  # RFC 3411 IPv6-format id of fe80::1-like addresses
        bytes.fromhex("80001f8805") + b"\x00" * 12,
        b"\x00" * 12,
        bytes.fromhex("80001f8804") + b"\x00" * 11 + b"\x07",  # 11 zeros: not a placeholder look-alike
    ]
    for eid, auth, priv in itertools.product(zero_ids, (1, 2), (0, 1, 2)):
        for user in ("user1", "\x00" * 12, "a" + "\x00" * 13):
            cfg = Cfg("v3", auth=auth, priv=priv, engine_id=eid, user=user)
            yield {
                "class": "zero-run-identifiers",
                "cfgs": [cfg.describe()],
                "history": [["get", 0, "sys"], ["refresh", 0], ["reply", 0, "ok", 3], ["get_many", 0, "pair"], ["getbulk", 0, "sys", 5]],
            }
    # large requests after large replies went through the pooled buffers (whatever a buffer held must not leak into the MAC field)
    for auth, priv in ((1, 0), (2, 0), (2, 2), (1, 1)):
        cfg = Cfg("v3", auth=auth, priv=priv)
        other = Cfg("v2c")
        h = []
        for n in (3500, 3900, 2000):
            h += [["get", 0, "sys"], ["reply", 0, "octets", n], ["get_many", 0, "forty"], ["get", 1, "sys"], ["reply", 1, "octets", n], ["get_many", 0, "forty"], ["getbulk", 0, "sys", 9]]
        yield {"class": "after-large-replies", "cfgs": [cfg.describe(), other.describe()], "history": h}
    # a refused key installation must leave the keys the session had
    for auth, priv in ((1, 0), (2, 0), (1, 1), (2, 2), (2, 1)):
        for disc in (False, True):
            cfg = Cfg("v3", auth=auth, priv=priv, discover=disc)
            for how in ("authlen", "privlen", "privempty", "privalg"):
                if not priv and how != "authlen":
                    continue
                pre = [["discover", 0, 0]] if disc else []
                yield {
                    "class": "refused-set-keys",
                    "cfgs": [cfg.describe()],
                    "history": pre + [["get", 0, "sys"], ["set_keys_bad", 0, how], ["get", 0, "sys"], ["refresh", 0], ["set_keys_bad", 0, how], ["get_many", 0, "pair"]],
                }
    other = Cfg("v2c")
    for auth, priv in ((1, 0), (2, 0), (1, 1), (2, 2), (2, 1), (0, 0)):
        for kt in kts:
            cfg = Cfg("v3", auth=auth, priv=priv, key_type=kt)
            for pre, fin in itertools.product(PREFIXES, FINALS):
                yield {"class": "pooled-history", "cfgs": [cfg.describe(), other.describe()], "history": pre + [fin]}
    # a second v3 session with a different key on the same pool
    for pre, fin in itertools.product(PREFIXES, FINALS):
        a = Cfg("v3", auth=2, priv=2)
        b = Cfg("v3", auth=1, priv=1, user="other", auth_pass=b"zzzzzzzzzz")
        yield {"class": "pooled-history", "cfgs": [a.describe(), b.describe()], "history": pre + [fin]}
    # keys installed through discovery + set_keys
    for auth, priv, kt, pkt in itertools.product((1, 2), (0, 1, 2), (0, 1, 2), (0, 1, 2)):
        if not priv and pkt != kt:
            continue
        if not thorough and (kt, pkt) not in ((0, 0), (0, 1), (2, 0), (1, 2)):
            continue
        cfg = Cfg("v3", auth=auth, priv=priv, key_type=kt, priv_key_type=pkt, discover=True)
        yield {
            "class": "discovered",
            "cfgs": [cfg.describe()],
            "history": [["discover", 0, 0], ["get", 0, "sys"], ["reply", 0, "ok", 1], ["get_many", 0, "forty"], ["refresh", 0], ["getbulk", 0, "sys", 9]],
        }


def gen_public(tier):
    """Public clients: plain scripts and one User object shared by sessions to agents with different engine ids."""
    from . import c13

    for case in c13.gen_public(tier):
        cfg = Cfg.from_desc(case["cfg"])
        if cfg.auth and ("order" in case or case.get("lose_first") or case.get("ctx_other") or case.get("empty_eid_arg") or "pre_iter" in case["script"] or (case.get("clock") == 0 and case["script"] == c13.SCRIPTS[1])):
            yield case


def work_public(chunk):
    from . import c13

    res = common.Result()
    for case in chunk:
        probs, n = (c13.run_shared if "order" in case else c13.run_public)(case, CLAUSES)
        res.count("cases")
        res.count("datagrams", n)
        res.count("api_calls", len(case["script"]) + 1)
        res.distinct()
        res.outcome("public-" + case["driver"] + ("-shared-user" if "order" in case else "") + ("-lost-probe" if case.get("lose_first") else ""))
        for c, t in probs:
            if c == "mac":
                res.violation("public/%s/%s: %s" % (case["driver"], c, histcheck.classify(t)), t, case)
    return res


def replay(case):
    if case.get("raw_no_eid"):
        common.prepare_stage()
        r = work_raw_no_eid([case])
        return {"problems": [v[1] for v in r["violations"]], "holds": not r["violations"]}
    if "driver" in case:
        from . import c13

        common.prepare_stage()
        probs, n = (c13.run_shared if "order" in case else c13.run_public)(case, CLAUSES)
        return {"problems": [p for p in probs if p[0] == "mac"], "requests": n}
    return histcheck.replay(case, CLAUSES)


def work_raw_no_eid(chunk):
    """Low-level socket created with a password / master key but an *empty* engine id: whatever it sends with the auth flag
    set must verify under the key localized to the engine id the message itself carries (here: the empty one)."""
    from .. import drivers, refber as rb, refcrypto
    from . import c10

    res = common.Result()
    SYS = (1, 3, 6, 1, 2, 1, 1, 5, 0)
    for case in chunk:
        base = Cfg.from_desc(case["cfg"])
        cfg = c10.EmptyEidCfg.from_desc(case["cfg"])
        cfg.__class__ = c10.EmptyEidCfg
        w = drivers.SplitWorld(cfg)
        try:
            learnt = False
            for op in ("refresh", "get", "get_many", "getbulk", "refresh", "LEARN", "get", "refresh", "get_many"):
                if op == "LEARN":
                    # the agent answers a probe with an (unauthenticated) Report naming its engine id; the application then
                    # installs the *same* credentials again - from here on the key is the one localized to that engine id
                    o = w.send("refresh")
                    data = w.take_request() if o.kind == "ok" else None
                    if data is None:
                        break
                    rq = rb.parse_message(data, strict=False)
                    vb = [((1, 3, 6, 1, 6, 3, 15, 1, 1, 4, 0), rb.tlv(0x41, b"\x01"))]
                    pdu = rb.build_pdu(rb.PDU_REPORT, rq.request_id or 0, 0, 0, vb)
                    usm = rb.build_usm(base.engine_id, 7, 1000, base.user, b"", b"")
                    w.inject(rb.build_v3(rq.msg_id, 0, usm, rb.build_scoped(base.engine_id, b"", pdu)))
                    w.recv("refresh")
                    eid, user, a_alg, a_key, p_alg, p_key = base.raw_args(base.engine_id)
                    so = drivers.call(w.sock.set_keys, user, a_alg, a_key, p_alg, p_key)
                    res.count("api_calls", 3)
                    if so.kind != "ok":
                        break
                    learnt = True
                    continue
                if op == "get":
                    o = w.send(op, rb.oid_str(SYS))
                elif op == "get_many":
                    o = w.send(op, [rb.oid_str(SYS)])
                elif op == "getbulk":
                    o = w.send(op, it=w.iter_for("b", rb.oid_str(SYS), 5))
                else:
                    o = w.send(op)
                data = w.take_request() if o.kind == "ok" else None
                res.count("cases")
                res.count("api_calls")
                res.distinct()
                res.outcome("raw-no-engine-id")
                if data is None:
                    continue
                r = rb.parse_message(data, strict=False)
                if not r.flags & 1:
                    continue  # a probe may go out unauthenticated (RFC 3414 s.4); C14 judges what may be in it
                res.count("datagrams")
                off = r.auth_off
                kul = refcrypto.localize(base.auth, drivers.master_key(base.auth, base.auth_pass), bytes(r.engine_id))
                want = refcrypto.mac_of_message(base.auth, kul, data[:off] + bytes(12) + data[off + 12 :], off)
                if data[off : off + 12] != want:
                    res.violation(
                        "raw-no-engine-id/%s/mac%s" % (base.name, "-after-discovery" if learnt else ""),
                        "%s sent with the auth flag and engine id %r%s: msgAuthenticationParameters does not verify under the key localized to that engine id" % (op, bytes(r.engine_id), " (learnt from a Report, same credentials installed again)" if learnt else ""),
                        {"raw_no_eid": True, "cfg": case["cfg"]},
                    )
                    break
        finally:
            w.close()
    return res


def run(tier):
    common.prepare_stage()
    rec = common.Recorder(PROPERTY, tier, LEVEL, MODULE)
    rec.rule = (
        "per configuration (engine-id length x user-name length x digest x cipher x key type): one long history sweeping the request "
        "size octet by octet across 127/128 and 255/256 at every nesting level and up to the buffer limit, for each boots/time width "
        "class; every depth<=2 prefix on the shared pool x every request type; keys installed via discovery+set_keys; sync and async public clients incl. one User object shared by sessions to agents with different engine ids, and the first discovery datagram lost. "
        "evaluations = datagrams whose MAC was recomputed; distinct cases = histories."
    )
    rec.assume("HMAC and key derivation by CPython hashlib/hmac; key localized to the engine id found in the message")
    common.run_cases(rec, work, list(gen_cases(tier)), chunk=4)
    common.run_cases(rec, work_public, list(gen_public(tier)), chunk=6)
    raw = [{"cfg": Cfg("v3", auth=a, priv=p, key_type=kt, priv_key_type=kt).describe()} for a in (1, 2) for p in (0, 1, 2) for kt in (0, 1)]
    common.run_cases(rec, work_raw_no_eid, raw, chunk=2)
    return histcheck.finish(rec)
