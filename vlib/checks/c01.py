"""C01 - no datagram can crash the client: the receive path is total.

(a) Rust explorer (RSX): every byte string up to a length bound over full / reduced alphabets at all
    29 decoder entry points (plus what the Python layer does with a decoded result: OID rendering),
    every <=2-deviation and every header tampering of ~200 skeleton messages, the privacy decrypt path.
(b) end to end: for every configuration x pending operation, matching-id replies under all truncations,
    single substitutions and header tamperings - applied to the scoped PDU before sealing (so that
    authentication passes and the payload reaches the Python conversion layer) and to the raw datagram -
    are sent to the real socket. Verdict: the call returns, skips, or raises a documented Exception;
    never a PanicException / other BaseException, a dead worker, or a hang.
"""

from .. import common, drivers, refber as rb, rsx, values
from ..drivers import Cfg

PROPERTY = "C01"
LEVEL = "model_checking"
MODULE = __name__

SIGMA30 = bytes.fromhex("000102030405060709 0d 1f 30 40 41 42 43 44 46 47 7f 80 81 82 84 a0 a1 a2 a5 a8 ff".replace(" ", ""))
BASE = (1, 3, 6, 1, 2, 1, 2)
KINDS = list(values.ALL_KINDS)


def skeleton_pdus(op, rid):
    """(name, pdu bytes) skeleton replies appropriate for a pending operation."""
    out = []
    n1, n2, n3 = BASE + (2, 1, 1), BASE + (2, 1, 2), BASE + (2, 1, 16384)
    if op in ("get", "getnext", "refresh"):
        for k in KINDS:
            out.append(("1vb-" + k, rb.build_pdu(rb.PDU_RESPONSE, rid, 0, 0, [(n1, values.representative(k).tlv)])))
        out.append(("0vb", rb.build_pdu(rb.PDU_RESPONSE, rid, 0, 0, [])))
        out.append(("2vb", rb.build_pdu(rb.PDU_RESPONSE, rid, 0, 0, [(n1, rb.enc_int(1)), (n2, rb.enc_int(2))])))
    else:
        groups = [KINDS[i : i + 3] for i in range(0, len(KINDS), 3)]
        for g in groups:
            vbs = [(n, values.representative(k).tlv) for n, k in zip((n1, n2, n3), g)]
            out.append(("3vb-" + "+".join(g), rb.build_pdu(rb.PDU_RESPONSE, rid, 0, 0, vbs)))
    # binary REALs with mantissas of 8, 9, 12, 16 and 17 octets
    for ml in (8, 9, 12, 16, 17):
        out.append(("real-mantissa-%d" % ml, rb.build_pdu(rb.PDU_RESPONSE, rid, 0, 0, [(n1, rb.tlv(0x09, b"\x80\x00" + b"\x01" + b"\x00" * (ml - 1)))])))
    # relative OID names, error status, report, other pdu types
    rel = [rb.varbind(rb.enc_oid(n1), rb.enc_int(1)), rb.varbind(rb.tlv(0x0D, bytes([3])), rb.enc_int(2)), rb.varbind(rb.tlv(0x0D, bytes([1, 3, 6, 1, 2, 1, 2, 2, 1, 9])), rb.enc_octets(b"x"))]
    out.append(("relative-names", rb.build_pdu(rb.PDU_RESPONSE, rid, 0, 0, rel)))
    out.append(("error-status", rb.build_pdu(rb.PDU_RESPONSE, rid, 2, 1, [(n1, rb.enc_null())])))
    out.append(("report", rb.build_pdu(rb.PDU_REPORT, rid, 0, 0, [((1, 3, 6, 1, 6, 3, 15, 1, 1, 3, 0), b"\x41\x01\x05")])))
    out.append(("request-echo", rb.build_pdu(rb.PDU_GETBULK, rid, 0, 10, [(n1, rb.enc_null())])))
    return out


def deviations(data, full_alphabet, tamper=True):
    """All truncations, single substitutions, and header tamperings of every TLV node."""
    n = len(data)
    for t in range(n):
        yield data[:t]
    alpha = range(256) if full_alphabet else SIGMA30
    b = bytearray(data)
    for pos in range(n):
        o = b[pos]
        for a in alpha:
            if a != o:
                b[pos] = a
                yield bytes(b)
        b[pos] = o
    if not tamper:
        return
    try:
        nodes = rb.all_nodes(rb.tree(data, strict=False))
    except rb.StrictError:
        return
    for nd in nodes:
        L = len(nd.content)
        lens = [rb.enc_len(max(0, L + d)) for d in (-2, -1, 1, 2, 127) if L + d >= 0]
        lens += [b"\x00", b"\x7f", b"\x80", bytes([0x81, L & 0xFF]), bytes([0x82, L >> 8, L & 0xFF]), bytes([0x84, 0, 0, L >> 8, L & 0xFF]), bytes([0x83, 1, L >> 8, L & 0xFF]),
                 bytes([0x88, 0, 0, 0, 0, 0, 0, L >> 8, L & 0xFF]), b"\x89\x01\x00\x00\x00\x00\x00\x00\x00" + bytes([L & 0xFF]), b"\xff", b"\x84\xff\xff\xff\xff"]
        for le in lens:
            yield data[: nd.start + 1] + le + data[nd.cstart :]
        for t in SIGMA30:
            if t != nd.tag:
                yield data[: nd.start] + bytes([t]) + data[nd.start + 1 :]
        for tail in (b"\x1f\x80", b"\x1f\x80\x80\x01", b"\x3f\xff\xff\xff\xff\x7f"):
            yield data[: nd.start] + tail + data[nd.start + 1 :]


def classify(out, op):
    mod, fast = drivers.subject()
    if out.kind == "ok":
        return "value", True
    e = out.exc
    if not isinstance(e, Exception):
        return "non-Exception:" + out.exc_name, False
    if isinstance(e, BlockingIOError):
        return "skipped", True
    if isinstance(e, fast.SnmpError):
        return out.exc_name, True
    if isinstance(e, (TimeoutError, OSError, ValueError, StopIteration, StopAsyncIteration, NotImplementedError)):
        return out.exc_name, True
    if isinstance(e, RuntimeError) and op == "get_many":
        return "RuntimeError", True
    return "undocumented:" + out.exc_name, False


def run_block(case, res):
    mod, fast = drivers.subject()
    cfg = Cfg.from_desc(case["cfg"])
    op = case["op"]
    w = drivers.SplitWorld(cfg)
    it = None
    force = getattr(fast, "_verif_rng_force", None)
    if force:
        force([0x12345678, 0x23456789])  # fixed-width ids: the enumeration does not depend on the RNG
    if op == "get":
        o = w.send("get", rb.oid_str(BASE + (2, 1, 1)))
    elif op == "get_many":
        o = w.send("get_many", [rb.oid_str(BASE + (2, 1, 1)), rb.oid_str(BASE + (2, 1, 2))])
    elif op == "getnext":
        it = fast.GetIter(rb.oid_str(BASE))
        o = w.send("getnext", it=it)
    elif op == "getbulk":
        it = fast.GetIter(rb.oid_str(BASE), 10)
        o = w.send("getbulk", it=it)
    else:
        o = w.send("refresh")
    if force:
        force([])
    if o.kind != "ok":
        res["machinery"].append("cannot send %s on %s: %r" % (op, cfg.name, o.brief()))
        return
    req = drivers.open_request(cfg, w.take_request(), strict=False, check_mac=False)
    if case.get("sizes"):
        return run_sizes(case, res, cfg, op, w, req, it)
    if case.get("plain"):
        return run_plain(case, res, cfg, op, w, req, it)
    skels = skeleton_pdus(op, req.request_id)
    name, pdu = skels[case["skel"]]
    level = case["level"]
    if cfg.version != "v3":
        base = rb.build_community_msg(req.version, req.community, pdu)
        stream = deviations(base, case["full"])
        seal = None
    else:
        scoped = rb.build_scoped(cfg.engine_id, b"", pdu)
        if level == "scoped":
            stream = deviations(scoped, case["full"])
            seal = lambda sc: drivers.seal_reply(cfg, req.msg_id, cfg.engine_id, req.boots, req.time, sc)  # noqa: E731
        else:
            base = drivers.seal_reply(cfg, req.msg_id, cfg.engine_id, req.boots, req.time, scoped)
            stream = deviations(base, case["full"], tamper=True)
            seal = None
    n = 0
    for dev in stream:
        dg = seal(dev) if seal else dev
        if len(dg) > 4080 or not dg:
            if not dg:
                continue
            dg = dg[:4080]
        w.inject(dg)
        if op in ("getnext", "getbulk"):
            it = fast.GetIter(rb.oid_str(BASE), 10) if op == "getbulk" else fast.GetIter(rb.oid_str(BASE))
        out = w.recv(op, it)
        n += 1
        cls, ok = classify(out, op)
        res.outcome(cls)
        if not ok:
            res.violation(
                "e2e/%s/%s/%s: %s %s" % (cfg.name if cfg.version == "v3" else cfg.version, op, level, cls, _cls(str(out.exc))),
                "pending %s on %s; datagram (%s deviation of skeleton '%s'): %s -> %s: %s" % (op, cfg.name, level, name, dg.hex()[:400], out.exc_name, str(out.exc)[:200]),
                {"cfg": case["cfg"], "op": op, "datagram": dg, "replay_kind": "datagram", "req_ids": [req.request_id, req.msg_id]},
            )
        if not w.client_queue_empty():
            w.flush_client_queue()
    res.count("datagrams", n)
    res.count("blocks")
    res.distinct(n)
    if len(res["samples"]) < 1:
        res.sample({"cfg": cfg.name, "op": op, "skeleton": name, "level": level, "datagrams": n})
    w.close()


def plain_pdus(rid):
    """Replies delivered as they are (no deviation enumeration): values whose contents stop short of / run past what a
    special-casing decoder might expect, and Reports naming every prefix of the usmStats OIDs."""
    out = []
    n1 = BASE + (2, 1, 1)
    import struct as _st

    wrapped = ["9f7804" + _st.pack(">f", 1.5).hex(), "9f7908" + _st.pack(">d", 1.5).hex(), "9f760101", "9f7a0400000001", "9f7b08" + "00" * 7 + "05", "9f7c08" + "ff" * 8, "9f7d04" + "00" * 4]
    contents = set()
    for wv in wrapped:
        b = bytes.fromhex(wv)
        for k in range(0, len(b) + 1):
            contents.add(b[:k])
        contents.add(b + b"\x00")
        contents.add(b + b"\x00" * 5)
    for tag in (0x44, 0x04):
        for c in sorted(contents):
            out.append(("tag%02x-%s" % (tag, c.hex() or "empty"), rb.build_pdu(rb.PDU_RESPONSE, rid, 0, 0, [(n1, rb.tlv(tag, c))])))
    # fixed-size and numeric types with every content length 0..10
    for tag in (0x01, 0x02, 0x05, 0x06, 0x09, 0x40, 0x41, 0x42, 0x43, 0x46, 0x47, 0x80, 0x81, 0x82):
        for k in range(0, 11):
            for fill in (0x00, 0x7F, 0x80, 0xFF):
                out.append(("tag%02x-len%d-%02x" % (tag, k, fill), rb.build_pdu(rb.PDU_RESPONSE, rid, 0, 0, [(n1, rb.tlv(tag, bytes([fill]) * k))])))
    # Reports whose first varbind names every prefix of the usmStats OIDs (and one arc more)
    for last in (1, 2, 3, 4, 5, 6):
        full = (1, 3, 6, 1, 6, 3, 15, 1, 1, last, 0)
        for k in range(2, len(full) + 1):
            out.append(("report-oid-%d-%d" % (last, k), rb.build_pdu(rb.PDU_REPORT, rid, 0, 0, [(full[:k], b"\x41\x01\x05")])))
        out.append(("report-oid-%d-long" % last, rb.build_pdu(rb.PDU_REPORT, rid, 0, 0, [(full + (7,), b"\x41\x01\x05")])))
    out.append(("report-no-varbind", rb.build_pdu(rb.PDU_REPORT, rid, 0, 0, [])))
    out.append(("report-null-value", rb.build_pdu(rb.PDU_REPORT, rid, 0, 0, [((1, 3, 6, 1, 6, 3, 15, 1, 1, 2, 0), rb.enc_null())])))
    return out


def run_plain(case, res, cfg, op, w, req, it):
    mod, fast = drivers.subject()
    n = 0
    extra_dgs = []
    if cfg.version == "v3":
        # well-formed, length-consistent v3 envelopes that end right after msgSecurityParameters (no msgData), every flag value
        for flags in range(8):
            for ap in (b"", bytes(12)):
                usm = rb.build_usm(cfg.engine_id, req.boots, req.time, cfg.user, ap, b"" if not flags & 2 else b"\x00" * 8)
                hdr = rb.tlv(0x30, rb.enc_int(req.msg_id) + rb.enc_int(65507) + rb.enc_octets(bytes([flags])) + rb.enc_int(3))
                extra_dgs.append(rb.tlv(0x30, rb.enc_int(3) + hdr + rb.enc_octets(usm)))
                extra_dgs.append(rb.tlv(0x30, rb.enc_int(3) + hdr + rb.enc_octets(usm) + rb.enc_octets(b"")))
                extra_dgs.append(rb.tlv(0x30, rb.enc_int(3) + hdr))
    for dg in extra_dgs:
        w.inject(dg)
        if op in ("getnext", "getbulk"):
            it = fast.GetIter(rb.oid_str(BASE), 10) if op == "getbulk" else fast.GetIter(rb.oid_str(BASE))
        out = w.recv(op, it)
        n += 1
        cls, ok = classify(out, op)
        res.outcome(cls)
        if not ok:
            res.violation(
                "e2e/%s/%s/plain: %s %s" % (cfg.name, op, cls, _cls(str(out.exc))),
                "pending %s on %s; v3 envelope without msgData: %s -> %s: %s" % (op, cfg.name, dg.hex()[:300], out.exc_name, str(out.exc)[:200]),
                {"cfg": case["cfg"], "op": op, "datagram": dg, "replay_kind": "datagram", "req_ids": [req.request_id, req.msg_id]},
            )
        if not w.client_queue_empty():
            w.flush_client_queue()
    for name, pdu in plain_pdus(req.request_id):
        is_report = name.startswith("report")
        if is_report and cfg.version != "v3":
            continue
        if cfg.version != "v3":
            dgs = [rb.build_community_msg(req.version, req.community, pdu)]
        else:
            scoped = rb.build_scoped(cfg.engine_id, b"", pdu)
            dgs = [drivers.seal_reply(cfg, req.msg_id, cfg.engine_id, req.boots, req.time, scoped)]
            if is_report:
                dgs.append(drivers.seal_reply(cfg, req.msg_id, cfg.engine_id, req.boots, req.time, scoped, flags=0))
        for dg in dgs:
            w.inject(dg)
            if op in ("getnext", "getbulk"):
                it = fast.GetIter(rb.oid_str(BASE), 10) if op == "getbulk" else fast.GetIter(rb.oid_str(BASE))
            out = w.recv(op, it)
            n += 1
            cls, ok = classify(out, op)
            res.outcome(cls)
            if not ok:
                res.violation(
                    "e2e/%s/%s/plain: %s %s" % (cfg.name if cfg.version == "v3" else cfg.version, op, cls, _cls(str(out.exc))),
                    "pending %s on %s; reply '%s': %s -> %s: %s" % (op, cfg.name, name, dg.hex()[:300], out.exc_name, str(out.exc)[:200]),
                    {"cfg": case["cfg"], "op": op, "datagram": dg, "replay_kind": "datagram", "req_ids": [req.request_id, req.msg_id]},
                )
            if not w.client_queue_empty():
                w.flush_client_queue()
    res.count("datagrams", n)
    res.count("plain_datagrams", n)
    res.count("blocks")
    res.distinct(n)
    w.close()


def run_sizes(case, res, cfg, op, w, req, it):
    """Well-formed replies of every datagram size up to the 4080-octet receive limit (and a few beyond), sealed
    correctly, with a wrong MAC, and with a damaged last octet."""
    mod, fast = drivers.subject()
    n1 = BASE + (2, 1, 1)
    seen = set()
    n = 0
    for plen in case["payloads"]:
        pdu = rb.build_pdu(rb.PDU_RESPONSE, req.request_id, 0, 0, [(n1, rb.enc_octets(bytes([0x41 + plen % 26]) * plen))])
        if cfg.version != "v3":
            good = rb.build_community_msg(req.version, req.community, pdu)
        else:
            good = drivers.seal_reply(cfg, req.msg_id, cfg.engine_id, req.boots, req.time, rb.build_scoped(cfg.engine_id, b"", pdu))
        if len(good) in seen or len(good) > 4200:
            continue
        seen.add(len(good))
        variants = [("sealed", good), ("last-octet-damaged", good[:-1] + bytes([good[-1] ^ 0x55]))]
        if cfg.version == "v3" and cfg.auth:
            try:
                r = rb.parse_message(good, strict=False)
                k = good.find(r.auth_params)
                variants.append(("wrong-mac", good[:k] + bytes(12) + good[k + 12 :]))
            except rb.StrictError:
                pass
        for vname, dg in variants:
            w.inject(dg[:4080] if len(dg) > 4080 and case.get("clip") else dg)
            if op in ("getnext", "getbulk"):
                it = fast.GetIter(rb.oid_str(BASE), 10) if op == "getbulk" else fast.GetIter(rb.oid_str(BASE))
            out = w.recv(op, it)
            n += 1
            cls, ok = classify(out, op)
            res.outcome(cls)
            # (C02's clause, not C01's: a well-formed reply that fits the receive buffer reaches the caller; C02 runs this sweep with judge_loss)
            if case.get("judge_loss") and ok and vname == "sealed" and len(dg) <= 4080 and op == "get" and not (out.kind == "ok" and isinstance(out.value, bytes) and out.value == bytes([0x41 + plen % 26]) * plen):
                cls, ok = "lost:" + cls, False
            if not ok:
                res.violation(
                    "e2e/%s/%s/size: %s %s" % (cfg.name if cfg.version == "v3" else cfg.version, op, cls, _cls(str(out.exc))),
                    "pending %s on %s; %s reply of %d octets carrying an OCTET STRING of %d -> %s" % (op, cfg.name, vname, len(dg), plen, out.brief()),
                    {"cfg": case["cfg"], "op": op, "datagram": dg, "replay_kind": "datagram", "req_ids": [req.request_id, req.msg_id]},
                )
            if not w.client_queue_empty():
                w.flush_client_queue()
    res.count("datagrams", n)
    res.count("size_datagrams", n)
    res.count("blocks")
    res.distinct(n)
    w.close()


def _cls(t):
    import re

    return re.sub(r"\d+", "N", t)[:70]


SIGMA8 = bytes.fromhex("0002040630 81 a2 ff".replace(" ", ""))


def classify_public(out, op):
    """Public clients: documented = a value, or an Exception of the documented families."""
    mod, fast = drivers.subject()
    if out.kind == "ok":
        return "value", True
    e = out.exc
    if not isinstance(e, Exception):
        return "non-Exception:" + out.exc_name, False
    if isinstance(e, (fast.SnmpError, TimeoutError, OSError, ValueError, NotImplementedError)):
        return out.exc_name, True
    if isinstance(e, RuntimeError) and op == "get_many":
        return "RuntimeError", True
    # StopIteration / StopAsyncIteration must not escape from get()/get_many()/list(walk)
    return "undocumented:" + out.exc_name, False


def run_public_block(case, res):
    """The same deviations through the real sync / async clients (binds the Python wrappers)."""
    cfg = Cfg.from_desc(case["cfg"])
    op = case["op"]
    state = {"dev": None, "n": 0}
    skel_idx = case["skel"]

    def responder(data, idx):
        try:
            req = drivers.open_request(cfg, data, strict=False, check_mac=False)
        except (rb.StrictError, drivers.V3Error, ValueError):
            return []  # e.g. a follow-up request echoing a malformed OID the agent itself supplied
        if req.request_id is None:
            return []
        name, pdu = skeleton_pdus(op if op != "walk-next" else "getnext", req.request_id)[skel_idx]
        if cfg.version != "v3":
            base = rb.build_community_msg(req.version, req.community, pdu)
            dg = state["dev"](base)
        else:
            scoped = rb.build_scoped(cfg.engine_id, b"", pdu)
            dg = drivers.seal_reply(cfg, req.msg_id, cfg.engine_id, req.boots, req.time, state["dev"](scoped))
        return [dg[:4080]] if dg else []

    # deviations are positional: enumerate over a probe skeleton of the same shape
    probe = skeleton_pdus(op if op != "walk-next" else "getnext", 0x12345678)[skel_idx][1]
    if cfg.version != "v3":
        probe = rb.build_community_msg(1, b"public", probe)
    else:
        probe = rb.build_scoped(cfg.engine_id, b"", probe)
    n = len(probe)
    devs = [("trunc", t, 0) for t in range(0, n, 3)] + [("sub", p, a) for p in range(n) for a in SIGMA8]

    def mk(dev):
        kind, p, a = dev

        def f(base):
            if kind == "trunc":
                return base[: min(p, len(base))]
            if p >= len(base) or base[p] == a:
                return base
            return base[:p] + bytes([a]) + base[p + 1 :]

        return f

    base_oid = rb.oid_str(BASE)
    one = rb.oid_str(BASE + (2, 1, 1))

    def judge(dev, out):
        res.count("public_calls")
        cls, ok = classify_public(out, op)
        res.outcome("public:" + cls)
        if not ok:
            res.violation(
                "public/%s/%s/%s: %s" % (case["driver"], cfg.name if cfg.version == "v3" else cfg.version, op, cls),
                "%s client, pending %s, deviation %r of skeleton %d: %s: %s" % (case["driver"], op, dev, skel_idx, out.exc_name, str(out.exc)[:160]),
                {"cfg": case["cfg"], "op": op, "driver": case["driver"], "skel": skel_idx, "public_dev": list(dev)},
            )

    only = case.get("public_dev")
    if only:
        devs = [tuple(only)]
    if case["driver"] == "sync":
        w = drivers.SyncWorld(cfg, responder, timeout=0.005)
        try:
            s = w.session
            for dev in devs:
                state["dev"] = mk(dev)
                if op == "get":
                    out = drivers.call(s.get, one)
                elif op == "get_many":
                    out = drivers.call(s.get_many, [one, rb.oid_str(BASE + (2, 1, 2))])
                elif op == "walk-next":
                    out = drivers.call(lambda: [x for _, x in zip(range(3), s.getnext(base_oid))])
                else:
                    out = drivers.call(lambda: [x for _, x in zip(range(3), s.getbulk(base_oid, 5))])
                judge(dev, out)
            if w.errors:
                res["machinery"].append("agent errors %s" % w.errors[:2])
        finally:
            w.close()
    else:

        async def client(s):
            for dev in devs:
                state["dev"] = mk(dev)
                try:
                    if op == "get":
                        v = await s.get(one)
                    elif op == "get_many":
                        v = await s.get_many([one, rb.oid_str(BASE + (2, 1, 2))])
                    else:
                        v = []
                        it = s.getnext(base_oid) if op == "walk-next" else s.getbulk(base_oid, 5)
                        async for x in it:
                            v.append(x)
                            if len(v) >= 3:
                                break
                    out = drivers.Outcome("ok", v)
                except BaseException as e:  # noqa: BLE001
                    if isinstance(e, (KeyboardInterrupt, SystemExit, MemoryError)):
                        raise
                    out = drivers.Outcome("exc", exc=e)
                judge(dev, out)

        o, reqs, errs = drivers.run_async(cfg, responder, client, timeout=0.005)
        if errs:
            res["machinery"].append("agent errors %s" % errs[:2])
        if o.kind != "ok":
            res["machinery"].append("async driver failed %r" % (o.brief(),))
    res.count("blocks")


def work(chunk):
    res = common.Result()
    for case in chunk:
        if case.get("driver"):
            run_public_block(case, res)
        else:
            run_block(case, res)
    return res


def gen_cases(tier):
    thorough = tier == "thorough"
    cfgs = [Cfg("v1"), Cfg("v2c")] + drivers.k7()
    for cfg in cfgs:
        ops = ["get", "get_many", "getnext", "getbulk"] + (["refresh"] if cfg.version == "v3" else [])
        for op in ops:
            nsk = len(skeleton_pdus(op, 1))
            for sk in range(nsk):
                levels = ["raw"] if cfg.version != "v3" else ["scoped", "raw"]
                for level in levels:
                    if not thorough:
                        # quick: all skeletons on v2c and on authPriv; a rotating third elsewhere
                        heavy = cfg.version == "v2c" or (cfg.version == "v3" and cfg.auth == 2 and cfg.priv == 2)
                        if not heavy and (sk + len(op)) % 3:
                            continue
                        if level == "raw" and cfg.version == "v3" and sk % 4:
                            continue
                    yield {"cfg": cfg.describe(), "op": op, "skel": sk, "level": level, "full": thorough and (cfg.version == "v2c" or cfg.priv == 2)}
    # odd-sized contents of every value type and Reports naming OID prefixes, delivered as they are
    for cfg in cfgs:
        for op in ["get", "get_many", "getnext", "getbulk"] + (["refresh"] if cfg.version == "v3" else []):
            yield {"cfg": cfg.describe(), "op": op, "plain": True}
    # replies of every size up to the receive limit
    for cfg in cfgs:
        for op in ("get", "getbulk"):
            if cfg.version == "v3" and cfg.priv:
                pl = sorted(set(list(range(0, 4100, 97 if not thorough else 13)) + [x + d for x in (0, 128, 256, 1024, 1900, 1960, 2048, 3900, 3960, 4000) for d in range(-4, 40)]))
                pl = [x for x in pl if x >= 0]
            else:
                pl = list(range(0, 4100, 1 if thorough or op == "get" else 7))
            yield {"cfg": cfg.describe(), "op": op, "sizes": True, "payloads": pl}
    # the Python wrappers: a slice of the same deviations through both public clients
    for driver in ("sync", "async"):
        for cfg in (Cfg("v2c"), Cfg("v3", auth=2, priv=2)) + ((Cfg("v1"), Cfg("v3")) if thorough else ()):
            for op in ("get", "get_many", "walk-next", "walk-bulk"):
                nsk = len(skeleton_pdus("getnext" if op == "walk-next" else ("getbulk" if op == "walk-bulk" else op), 1))
                for sk in range(nsk):
                    if not thorough and sk % 5 not in (0, 3):
                        continue
                    yield {"driver": driver, "cfg": cfg.describe(), "op": op, "skel": sk}


def replay(case):
    if case.get("engine") == "rsx":
        return rsx.replay(case)
    common.prepare_stage()
    if case.get("class") == "short-reply":
        from .. import histcheck

        return histcheck.replay(case, ("reply",))
    if case.get("driver"):
        res = common.Result()
        run_public_block(case, res)
        return {"violations": [(v[0], v[1]) for v in res["violations"]], "outcomes": res["outcomes"]}
    mod, fast = drivers.subject()
    cfg = Cfg.from_desc(case["cfg"])
    force = getattr(fast, "_verif_rng_force", None)
    w = drivers.SplitWorld(cfg)
    op = case["op"]
    if force:
        force([case["req_ids"][0], case["req_ids"][1] or 0])
    it = None
    if op == "get":
        w.send("get", rb.oid_str(BASE + (2, 1, 1)))
    elif op == "get_many":
        w.send("get_many", [rb.oid_str(BASE + (2, 1, 1)), rb.oid_str(BASE + (2, 1, 2))])
    elif op == "getnext":
        it = fast.GetIter(rb.oid_str(BASE))
        w.send("getnext", it=it)
    elif op == "getbulk":
        it = fast.GetIter(rb.oid_str(BASE), 10)
        w.send("getbulk", it=it)
    else:
        w.send("refresh")
    if force:
        force([])
    w.take_request()
    w.inject(case["datagram"])
    out = w.recv(op, it)
    return {"outcome": out.brief(), "documented": classify(out, op)}


def run(tier):
    common.prepare_stage()
    rec = common.Recorder(PROPERTY, tier, LEVEL, MODULE)
    thorough = tier == "thorough"
    rec.rule = (
        "RSX: all byte strings of length <=%s over 256 symbols, <=%d over 30 symbols (one per tag/class/PDU type/length form), <=%d over 8 symbols at 29 decoder entry points; all truncations, "
        "single substitutions (256), single insertions/deletions (30) and pairs of substitutions (%s) of ~200 skeleton messages; header tampering of every TLV node (17 length forms, 30 tags, "
        "long-form tags); every relative-OID varbind name of 0..3 octets over 14 symbols after 7 short absolute names; decrypt path: salt length 0..16 x ciphertext length {0..64, C-16..C} x 3 patterns and every truncation / substitution of an encrypted scoped PDU. "
        "PYX end to end: v1, v2c, 7 v3 security configurations x pending {get, get_many, getnext, getbulk, refresh} x skeleton replies (18 value kinds, relative OIDs, error status, Report, "
        "foreign PDU; every value type with contents of 0..10 octets, Opaque / OCTET STRING contents that are prefixes of Net-SNMP wrapped types, Reports naming every prefix of the usmStats OIDs (delivered as they are); one-varbind replies of every datagram size up to the 4080-octet limit, sealed / wrong MAC / damaged) x all truncations, single substitutions (%s) and header tamperings, applied before sealing (MAC valid) and to the raw datagram. Every input is distinct." % (
            "4 (7 major entry points) / 3" if thorough else "3", 6 if thorough else 5, 10 if thorough else 8, "30x30" if thorough else "8x8", "256 symbols on v2c and AES, 30 elsewhere" if thorough else "30 symbols")
    )
    rec.assume(
        "memory safety of the two unsafe-bearing paths (Buffer, privacy buffers) is judged by C17's shadow model; here the verdict is: returns / raises a documented Exception / skips",
        "release arithmetic (overflow-checks off) as in the production profile",
    )
    rsx.run("c01", tier, rec)
    cases = list(gen_cases(tier))
    common.run_cases(rec, work, cases, chunk=1, timeout=900, case_timeout=600)
    # "touches memory outside the received bytes" without a crash: an authentic AES reply whose scoped PDU arrives k octets short
    # (every length residue mod 16 x k = 1..15), right after a complete reply of the same shape went through the decrypt buffer -
    # a value delivered here was completed from octets the datagram never carried
    from .. import histcheck

    short = []
    for auth in (1, 2):
        cfg = Cfg("v3", auth=auth, priv=2)
        for n_ in range(16):
            h = []
            for k in range(1, 16):
                h += [["get", 0, "sys"], ["reply", 0, "octets", 40 + n_], ["get", 0, "sys"], ["reply", 0, "cut", 40 + n_, k], ["reply", 0, "octets", 40 + n_]]
            short.append({"class": "short-reply", "cfgs": [cfg.describe()], "history": h})
    common.run_cases(rec, histcheck.make_work(("reply",)), short, chunk=2)
    n = rec.counters["rsx_decodes"] + rec.counters["datagrams"] + rec.counters["public_calls"]
    return rec.finish(evaluations=n, distinct_nontrivial=rec.counters["rsx_e1_strings"] + rec.counters["rsx_e2_inputs"] + rec.counters["rsx_e3_inputs"] + rec.counters["rsx_e4_decrypts"] + rec.counters["rsx_e5_inputs"] + rec.counters["datagrams"],
                      states=n, transitions=n, traces=rec.counters["datagrams"])
