"""C11 - encrypted payloads are exactly the scoped PDU under RFC 3414 / RFC 3826.

All send/receive/time-out histories up to a depth per cipher on one real session (the cipher object
keeps a private buffer), a sweep of scoped-PDU lengths over every residue modulo the block size,
boots/time corner values, key types (also mixed, also via discovery+set_keys). Every emitted msgData
is decrypted by the reference implementation and must equal the reference encoding of the scoped PDU
followed by less than one block of padding; agent-encrypted replies must be delivered intact.
"""

import itertools

from .. import common, histcheck
from ..drivers import Cfg

PROPERTY = "C11"
LEVEL = "model_checking"
MODULE = __name__
CLAUSES = ("priv", "pad", "reply")

work = histcheck.make_work(CLAUSES)

ALPHABET = [
    ["get", 0, "sys"],
    ["get_many", 0, "forty"],
    ["getnext", 0, "long"],
    ["getbulk", 0, "big", 2147483647],
    ["reply", 0, "ok", 1],
    ["reply", 0, "garbage"],
    ["reply", 0, "report", 2],
    ["timeout", 0],
]


def histories_upto(depth):
    for d in range(1, depth + 1):
        for h in itertools.product(ALPHABET, repeat=d):
            outstanding = False
            ok = True
            for a in h:
                if a[0] in ("reply", "timeout"):
                    if not outstanding:
                        ok = False
                        break
                    outstanding = False
                else:
                    outstanding = True
            if ok and h[-1][0] not in ("timeout",) and (d == depth or h[-1][0] != "reply"):
                yield [list(a) for a in h]


def length_sweep(lo, hi):
    h = []
    for n in range(lo, hi):
        h.append(["get_n", 0, n])
        if n % 5 == 0:
            h.append(["reply", 0, "octets", n * 3 % 97])
    for k, n in ((1, 2), (2, 77), (20, 3), (29, 2), (29, 40)):
        h.append(["get_many_kn", 0, k, n])
        h.append(["reply", 0, "octets", 1000 + k])
    return h


def gen_cases(tier):
    thorough = tier == "thorough"
    depth = 6 if thorough else 4
    combos = list(itertools.product((1, 2), (1, 2)))  # auth x priv
    for auth, priv in combos:
        cfg = Cfg("v3", auth=auth, priv=priv)
        for h in histories_upto(depth):
            yield {"class": "history", "cfgs": [cfg.describe()], "history": h}
    kts = [(0, 0), (1, 1), (2, 2), (0, 1), (0, 2), (1, 0), (2, 0), (1, 2), (2, 1)]
    for auth, priv in combos:
        for kt, pkt in kts:
            for disc in (False, True):
                cfg = Cfg("v3", auth=auth, priv=priv, key_type=kt, priv_key_type=pkt, discover=disc)
                pre = [["discover", 0, 3]] if disc else []
                yield {"class": "length-sweep", "cfgs": [cfg.describe()], "history": pre + length_sweep(2, 70 if thorough else 40)}
    # privacy key given as the very octets of the auth key, but of another key type
    for auth, priv in combos:
        for kt, pkt in kts:
            for disc in (False, True):
                n = {1: 16, 2: 20}[auth]
                cfg = Cfg("v3", auth=auth, priv=priv, key_type=kt, priv_key_type=pkt, discover=disc, same_bytes=True, auth_pass=bytes(range(0x30, 0x30 + n)))
                pre = [["discover", 0, 3]] if disc else []
                tail = [["set_keys", 0], ["get", 0, "sys"], ["reply", 0, "octets", 9]] if not disc else []
                yield {"class": "same-octets", "cfgs": [cfg.describe()], "history": pre + length_sweep(2, 12) + tail}
    # DES replies the agent padded itself (RFC 3414 8.1.1.2: the pad value is irrelevant): pad octets of value pad-size (Net-SNMP),
    # zero, 0xff; every residue of the plaintext length. (AES-CFB needs no padding - RFC 3826 - so padded AES replies are not judged.)
    for auth, priv in combos:
        if priv != 1:
            continue
        cfg = Cfg("v3", auth=auth, priv=priv)
        for how in ("size", "zero", "ff"):
            h = []
            for n in range(0, 17):
                h += [["get", 0, "sys"], ["reply", 0, "octets", 20 + n, how]]
            yield {"class": "agent-padding", "cfgs": [cfg.describe()], "history": h}
    # DES: authentic replies whose ciphertext is not a whole number of blocks (after a valid one has been decrypted)
    for auth in (1, 2):
        cfg = Cfg("v3", auth=auth, priv=1)
        h = [["get", 0, "sys"], ["reply", 0, "octets", 61]]
        for k in range(1, 8):
            h += [["get", 0, "sys"], ["reply", 0, "partial", k], ["reply", 0, "octets", 20 + k]]
        yield {"class": "partial-block", "cfgs": [cfg.describe()], "history": h}
    # AES (CFB is a stream mode - no padding can stand in for the missing octets; DES is covered by the partial-block family):
    # authentic replies whose scoped PDU arrives k octets short, right after a complete reply of the same shape went through the
    # decrypt buffer (every length residue mod 16 x k = 1..15): never delivered, and the next complete one is
    for auth, priv in combos:
        if priv != 2:
            continue
        cfg = Cfg("v3", auth=auth, priv=priv)
        for n in range(16):
            h = []
            for k in range(1, 16):
                h += [["get", 0, "sys"], ["reply", 0, "octets", 40 + n], ["get", 0, "sys"], ["reply", 0, "cut", 40 + n, k], ["reply", 0, "octets", 40 + n]]
            yield {"class": "short-reply", "cfgs": [cfg.describe()], "history": h}
    # large encrypted replies (up to the receive limit) must be decrypted and delivered intact
    for auth, priv in combos:
        cfg = Cfg("v3", auth=auth, priv=priv)
        h = []
        for n in (1500, 1900, 1990, 2040, 2100, 3000, 3900):
            h += [["get", 0, "sys"], ["reply", 0, "octets", n]]
        yield {"class": "big-replies", "cfgs": [cfg.describe()], "history": h}
    # real time passing between an accepted reply and the next request (header time and IV must stay in step)
    for auth, priv in combos:
        for disc in (False, True):
            cfg = Cfg("v3", auth=auth, priv=priv, discover=disc)
            pre = [["discover", 0, 0]] if disc else []
            h = pre + [["get", 0, "sys"], ["reply", 0, "ok", 1], ["sleep", 0, 1.15], ["get", 0, "sys"], ["reply", 0, "octets", 20], ["sleep", 0, 1.15], ["getbulk", 0, "sys", 3], ["get_many", 0, "pair"]]
            yield {"class": "slow", "cfgs": [cfg.describe()], "history": h}
    # boots / time corner values drive the AES IV and the DES salt prefix
    for auth, priv in combos:
        cfg = Cfg("v3", auth=auth, priv=priv, engine_id=bytes(range(1, 18)))
        h = []
        for v in range(6):
            h += [["get", 0, "sys"], ["reply", 0, "ok", v], ["get_n", 0, 9], ["getbulk", 0, "sys", 3], ["reply", 0, "octets", 33]]
        yield {"class": "boots-time", "cfgs": [cfg.describe()], "history": h}
    # two privacy sessions interleaved (private buffers must not mix)
    a = Cfg("v3", auth=2, priv=1)
    b = Cfg("v3", auth=1, priv=2, user="second", priv_pass=b"another-pass")
    inter = []
    for i in range(12):
        inter += [["get_n", i % 2, 3 + i], ["get_many", 1 - i % 2, "pair"]]
        if i % 3 == 0:
            inter += [["reply", i % 2, "octets", 40 + i]]
    yield {"class": "two-sessions", "cfgs": [a.describe(), b.describe()], "history": inter}



def gen_public(tier):
    """Both public clients with a privacy user: discovery at session entry, incl. the first discovery datagram lost and the entry
    repeated, one User object shared by sessions, an iterator prepared before entry."""
    from . import c13

    for case in c13.gen_public(tier):
        cfg = Cfg.from_desc(case["cfg"])
        if cfg.priv and ("order" in case or case.get("lose_first") or case.get("empty_eid_arg") or "pre_iter" in case["script"]):
            yield case


def _public_problems(case):
    from . import c13

    probs, n = (c13.run_shared if "order" in case else c13.run_public)(case, ("priv", "pad", "salt"))
    keep = []
    for c, t in probs:
        if c == "salt" and PROPERTY == "C11" and not ("not an OCTET STRING" in t or "priv flag" in t):
            continue  # salt values are C14's clause
        if c in ("priv", "pad", "salt"):
            keep.append((c, t))
    return keep, n


def work_public(chunk):
    res = common.Result()
    for case in chunk:
        probs, n = _public_problems(case)
        res.count("cases")
        res.count("datagrams", n)
        res.count("api_calls", len(case["script"]) + 1)
        res.distinct()
        res.outcome("public-" + case["driver"] + ("-lost-probe" if case.get("lose_first") else ""))
        for c, t in probs:
            res.violation("public/%s/%s: %s" % (case["driver"], c, histcheck.classify(t)), t, case)
    return res

def replay(case):
    if "driver" in case and "script" in case:
        common.prepare_stage()
        probs, n = _public_problems(case)
        return {"problems": probs, "requests": n, "holds": not probs}
    return histcheck.replay(case, CLAUSES)


def run(tier):
    common.prepare_stage()
    rec = common.Recorder(PROPERTY, tier, LEVEL, MODULE)
    rec.rule = (
        "all histories to depth %d over {get, get_many(40), getnext(128 arcs), getbulk, encrypted reply, garbage, plaintext Report, time-out} "
        "x {DES,AES} x {MD5,SHA1}; scoped-PDU length sweep over all residues mod 8/16 x 9 (auth,priv) key-type pairs x {engine id given, "
        "discovered+set_keys}; boots/time corners; two interleaved privacy sessions; histories with > 1 s of real time between an accepted reply and the next request. evaluations = msgData blobs decrypted and compared."
        % (6 if tier == "thorough" else 4)
    )
    rec.assume(
        "DES/AES block primitives: pure-Python FIPS implementations cross-checked against OpenSSL libcrypto at start-up; chaining, IV and salt rules written from RFC 3414 s.8 / RFC 3826",
    )
    cases = list(gen_cases(tier))
    common.run_cases(rec, work, [c for c in cases if c.get("class") == "slow"], chunk=1)
    common.run_cases(rec, work, [c for c in cases if c.get("class") != "slow"], chunk=60)
    common.run_cases(rec, work_public, list(gen_public(tier)), chunk=6)
    return histcheck.finish(rec)
