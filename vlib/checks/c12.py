"""C12 - USM keys are derived exactly as RFC 3414 A.2 prescribes.

Password-length classes x digests, engine-id lengths, key types as exposed (get_master_key,
get_localized_key) and as actually installed in sessions (constructor, set_keys, public User
classes with padding) - observed through the HMAC and decryptability of emitted messages -
plus the grid of malformed key material and algorithm codes, which must be refused with an
Exception and never crash.
"""

import itertools

from .. import common, drivers, histories, refber as rb, refcrypto
from ..drivers import Cfg
from ..reqoracle import Call, SessionModel, check_request

PROPERTY = "C12"
LEVEL = "model_checking"
MODULE = __name__


def password(n):
    return bytes(((i * 131 + 7) & 0xFF) or 1 for i in range(n))


def length_classes(thorough):
    ls = set(range(1, 131))
    for k in range(0, 21):
        ls |= {2**k, 2**k + 1, max(1, 2**k - 1)}
    ls |= {1000, 4096 * 3, 2**20 + 17, 2**21, 3 * 2**19}
    if thorough:
        ls |= set(range(131, 260)) | {2**20 - 64, 2**20 + 64, 2**20 + 2**19, 2**22}
    return sorted(ls)


def ref_master(alg, pw, slow=False):
    return refcrypto.password_to_key(alg, pw) if slow else refcrypto.password_to_key_fast(alg, pw)


def work_exposed(chunk):
    mod, fast = drivers.subject()
    res = common.Result()
    for case in chunk:
        alg = case["alg"]
        if case["kind"] == "master":
            pw = password(case["len"])
            out = drivers.call(fast.get_master_key, alg, pw)
            res.count("calls")
            res.distinct()
            res.outcome("master")
            exp = ref_master(alg, pw, slow=case["len"] in (1, 10, 63, 64, 65, 1000))
            if out.kind != "ok" or out.value != exp:
                res.violation(
                    "get_master_key/%s/len-class-%s" % (drivers.AUTH_NAMES[alg], len_class(case["len"])),
                    "password of %d octets: got %s, RFC 3414 A.2 gives %s" % (case["len"], out.value.hex() if out.kind == "ok" else out.brief(), exp.hex()),
                    case,
                )
            elif len(res["samples"]) < 1:
                res.sample({"get_master_key": drivers.AUTH_NAMES[alg], "password_len": case["len"], "key": exp.hex()})
        else:
            mk = ref_master(alg, password(case["plen"]))
            eid = bytes(((i * case["pat"] + 0x80) & 0xFF) for i in range(case["elen"]))
            out = drivers.call(fast.get_localized_key, alg, mk, eid)
            res.count("calls")
            res.distinct()
            res.outcome("localized")
            exp = refcrypto.localize(alg, mk, eid)
            if out.kind != "ok" or out.value != exp:
                res.violation(
                    "get_localized_key/%s" % drivers.AUTH_NAMES[alg],
                    "engine id of %d octets: got %s, expected %s" % (case["elen"], out.value.hex() if out.kind == "ok" else out.brief(), exp.hex()),
                    case,
                )
    return res


def len_class(n):
    if n > 2**20:
        return ">1MiB"
    if 2**20 % n == 0:
        return "divides-1MiB"
    return "other"


# ------------------------------------------------------------------ keys as installed

CLAUSES = ("mac", "priv", "salt", "usm", "wire")


def work_installed(chunk):
    res = common.Result()
    for case in chunk:
        probs, r = histories.run_history(case["cfgs"], case["history"], CLAUSES)
        res.count("calls", r.api_calls)
        res.count("datagrams", r.datagrams)
        res.distinct()
        res.outcome("installed")
        for c, t, _ in probs:
            cfg = Cfg.from_desc(case["cfgs"][0])
            res.violation("installed/%s/%s: %s" % (cfg.name, "pwlen-%s" % len_class(len(cfg.auth_pass)), _cls(t)), t, case)
        if len(res["samples"]) < 1:
            res.sample({"installed": Cfg.from_desc(case["cfgs"][0]).name, "history": case["history"], "sizes": r.sizes})
    return res


def work_public(chunk):
    """Keys given to the public User classes (which pad/truncate master and localized keys)."""
    mod, fast = drivers.subject()
    from gufo.snmp.user import Aes128Key, DesKey, KeyType, Md5Key, Sha1Key, User

    res = common.Result()
    for case in chunk:
        if case.get("empty_priv"):
            outcome, clear = empty_priv_password_case(case)
            res.count("calls", 2)
            res.distinct()
            res.outcome("empty-priv-password:" + outcome)
            if clear:
                res.violation("public-user/empty-priv-password/sent-without-privacy", "a user with an (empty) privacy password: %s - outcome of the calls: %s" % (clear[0], outcome), case)
            elif outcome == "PanicException":
                res.violation("public-user/empty-priv-password/panic", "PanicException", case)
            continue
        auth, priv, kt, klen, disc = case["auth"], case["priv"], case["kt"], case["klen"], case["discover"]
        pkt = case.get("pkt", kt)
        ks = refcrypto.KEYLEN[auth]
        eid = b"\x80\x00\x1f\x88\x04engine"
        raw_a = bytes((i * 3 + 1) & 0xFF for i in range(klen))
        raw_p = bytes((i * 5 + 2) & 0xFF for i in range(klen))
        pad = lambda k: (k + b"\x00" * ks)[:ks]  # noqa: E731
        ktypes = {0: KeyType.Password, 1: KeyType.Master, 2: KeyType.Localized}
        akey = {1: Md5Key, 2: Sha1Key}[auth](raw_a, key_type=ktypes[kt])
        pkey = {1: DesKey, 2: Aes128Key}[priv](raw_p, key_type=ktypes[pkt]) if priv else None
        user = User("padder", auth_key=akey, priv_key=pkey)

        def kul(raw, t):
            # reference: passwords go through A.2.1/A.2.2 then localisation; master keys are padded to the auth
            # key length then localized; localized keys are padded and used as they are
            if t == 0:
                return refcrypto.localize(auth, refcrypto.password_to_key_fast(auth, raw), eid)
            if t == 1:
                return refcrypto.localize(auth, pad(raw), eid)
            return pad(raw)

        a_kul = kul(raw_a, kt)
        p_kul = kul(raw_p, pkt) if priv else None
        captured = []

        def responder(data, idx):
            captured.append(data)
            r = rb.parse_message(data, strict=False)
            if not r.engine_id:
                vb = [((1, 3, 6, 1, 6, 3, 15, 1, 1, 4, 0), b"\x41\x01\x01")]
                scoped = rb.build_scoped(eid, b"", rb.build_pdu(rb.PDU_REPORT, 0, 0, 0, vb))
                return [rb.build_v3(r.msg_id, 0, rb.build_usm(eid, 3, 100, b"", b"", b""), scoped)]
            return []

        from gufo.snmp import SnmpVersion

        agent_kw = dict(version=SnmpVersion.v3, user=user, timeout=0.4)
        if not disc:
            agent_kw["engine_id"] = eid
        w = None
        try:
            w = _public_world(responder, agent_kw)
            s = w["session"]
            if disc:
                o = drivers.call(s.refresh)
            o = drivers.call(s.get, "1.3.6.1.2.1.1.5.0")
        finally:
            if w:
                w["close"]()
        res.count("calls", 2)
        res.distinct()
        res.outcome("public-user")
        final = [d for d in captured if rb.parse_message(d, strict=False).engine_id]
        if not final:
            res.violation("public-user/no-keyed-message", "no message with keys was emitted (%r)" % (o.brief(),), case)
            continue
        data = final[-1]
        r = rb.parse_message(data, strict=False)
        res.count("datagrams")
        if len(r.auth_params) != 12 or refcrypto.mac_of_message(auth, a_kul, data, r.auth_off) != r.auth_params:
            res.violation(
                "public-user/mac/%s/kt%d-%d/len%d" % (drivers.AUTH_NAMES[auth], kt, pkt, klen),
                "auth key of %d octets (type %d) padded to %d: MAC does not verify under the A.2 reference key" % (klen, kt, ks),
                case,
            )
        if priv:
            try:
                plain = refcrypto.usm_decrypt(priv, p_kul, r.boots, r.time, r.priv_params, r.encrypted or b"")
                rb.parse_scoped_into(rb.Request(), plain, True, allow_padding=True)
            except (rb.StrictError, ValueError, TypeError) as e:
                res.violation(
                    "public-user/priv/%s-%s/kt%d-%d/len%d" % (drivers.AUTH_NAMES[auth], drivers.PRIV_NAMES[priv], kt, pkt, klen),
                    "priv key of %d octets (type %d): payload does not decrypt under the reference key (%s)" % (klen, kt, e),
                    case,
                )
    return res


def _public_world(responder, kw):
    import socket
    import threading

    from gufo.snmp.sync_client import SnmpSession

    agent = drivers.new_agent_socket(blocking=True)
    agent.settimeout(0.02)
    stop = []

    def serve():
        i = 0
        while not stop:
            try:
                data, addr = agent.recvfrom(65535)
            except socket.timeout:
                continue
            except OSError:
                return
            for rep in responder(data, i) or ():
                agent.sendto(rep, addr)
            i += 1

    t = threading.Thread(target=serve, daemon=True)
    t.start()
    session = SnmpSession(addr="127.0.0.1", port=agent.getsockname()[1], **kw)

    def close():
        stop.append(1)
        t.join(1)
        agent.close()

    return {"session": session, "close": close}


def empty_priv_password_case(case):
    """A user configured with a privacy key whose password is empty: the session must refuse it (as the raw socket
    does) - what must never happen is a request leaving without privacy."""
    mod, fast = drivers.subject()
    from gufo.snmp import SnmpVersion
    from gufo.snmp.user import Aes128Key, DesKey, KeyType, Md5Key, Sha1Key, User

    auth, priv, disc = case["auth"], case["priv"], case["discover"]
    eid = b"\x80\x00\x1f\x88\x04engine"
    captured = []

    def responder(data, idx):
        captured.append(data)
        r = rb.parse_message(data, strict=False)
        if not r.engine_id:
            vb = [((1, 3, 6, 1, 6, 3, 15, 1, 1, 4, 0), b"\x41\x01\x01")]
            scoped = rb.build_scoped(eid, b"", rb.build_pdu(rb.PDU_REPORT, 0, 0, 0, vb))
            return [rb.build_v3(r.msg_id, 0, rb.build_usm(eid, 3, 100, b"", b"", b""), scoped)]
        return []

    outcome = "accepted"
    w = None
    try:
        user = User("nopw", auth_key={1: Md5Key, 2: Sha1Key}[auth](b"authpassword1", key_type=KeyType.Password), priv_key={1: DesKey, 2: Aes128Key}[priv](b"", key_type=KeyType.Password))
        kw = dict(version=SnmpVersion.v3, user=user, timeout=0.2)
        if not disc:
            kw["engine_id"] = eid
        w = _public_world(responder, kw)
        s = w["session"]
        if disc:
            s.refresh()
        s.get("1.3.6.1.2.1.1.5.0")
    except BaseException as e:  # noqa: BLE001
        if isinstance(e, (KeyboardInterrupt, SystemExit, MemoryError)):
            raise
        outcome = type(e).__name__
    finally:
        if w:
            w["close"]()
    clear = []
    for d in captured:
        try:
            r = rb.parse_message(d, strict=False)
        except rb.StrictError:
            continue
        if r.engine_id and r.oids and not (r.flags & 2):
            clear.append("flags %02x, OIDs %s readable" % (r.flags, [rb.oid_str(o) for o in r.oids]))
    return outcome, clear


# ------------------------------------------------------------------ malformed material


def work_malformed(chunk):
    mod, fast = drivers.subject()
    res = common.Result()
    agent = drivers.new_agent_socket()
    addr = "127.0.0.1:%d" % agent.getsockname()[1]
    eid = b"\x80\x00\x1f\x88\x04engine"

    def judge(sig, out, must_refuse, case):
        res.count("calls")
        res.distinct()
        if out.kind == "exc" and out.is_panic():
            res.outcome("panic")
            res.violation("malformed/%s: %s" % (sig, out.exc_name), "%s raised %s: %s" % (case, out.exc_name, str(out.exc)[:120]), case)
        elif out.kind == "ok" and must_refuse:
            res.outcome("accepted")
            res.violation("malformed/%s: accepted" % sig, "%s was accepted, must be refused" % (case,), case)
        else:
            res.outcome("refused" if out.kind == "exc" else "accepted")

    for case in chunk:
        k = case["kind"]
        if k == "localized_master_len":
            for alg in (1, 2):
                ks = refcrypto.KEYLEN[alg]
                for n in range(0, 65):
                    out = drivers.call(fast.get_localized_key, alg, b"\x11" * n, eid)
                    judge("get_localized_key/master-size", out, n != ks, {"kind": k, "alg": alg, "n": n})
        elif k == "alg_codes":
            for code in range(256):
                ok_alg = (code & 0x3F) in (1, 2)
                out = drivers.call(fast.get_master_key, code, b"password1")
                judge("get_master_key/alg-code", out, not ok_alg and (code & 0x3F) != 0, {"kind": k, "code": code})
                out = drivers.call(fast.get_localized_key, code, b"\x22" * (16 if (code & 0x3F) == 1 else 20), eid)
                judge("get_localized_key/alg-code", out, not ok_alg and (code & 0x3F) != 0, {"kind": k, "code": code})
        elif k == "empty_password":
            for alg in (1, 2):
                judge("get_master_key/empty-password", drivers.call(fast.get_master_key, alg, b""), True, {"kind": k, "alg": alg})
                out = drivers.call(fast.SnmpV3ClientSocket, addr, eid, "u", alg, b"", 0, b"", 0, 0, 0, 0)
                judge("socket/empty-auth-password", out, True, {"kind": k, "alg": alg, "where": "auth"})
                for palg in (1, 2):
                    out = drivers.call(fast.SnmpV3ClientSocket, addr, eid, "u", alg, b"goodpassword", palg, b"", 0, 0, 0, 0)
                    judge("socket/empty-priv-password", out, True, {"kind": k, "alg": alg, "palg": palg})
        elif k == "socket_key_len":
            for alg, kt in itertools.product((1, 2), (0x40, 0x80)):
                ks = refcrypto.KEYLEN[alg]
                for n in range(0, 65):
                    out = drivers.call(fast.SnmpV3ClientSocket, addr, eid, "u", alg | kt, b"\x33" * n, 0, b"", 0, 0, 0, 0)
                    judge("socket/auth-key-size/kt%02x" % kt, out, kt == 0x80 and n != ks, {"kind": k, "alg": alg, "kt": kt, "n": n})
                    for palg in (1, 2):
                        out = drivers.call(fast.SnmpV3ClientSocket, addr, eid, "u", alg | 0x40, b"\x33" * ks, palg | kt, b"\x44" * n, 0, 0, 0, 0)
                        judge("socket/priv-key-size/kt%02x" % kt, out, kt == 0x80 and n != ks, {"kind": k, "alg": alg, "palg": palg, "kt": kt, "n": n})
                    if n in (0, 5, ks, 64):
                        s = fast.SnmpV3ClientSocket(addr, eid, "u", 0, b"", 0, b"", 0, 0, 0, 0)
                        out = drivers.call(s.set_keys, "u", alg | kt, b"\x33" * n, 0, b"")
                        judge("set_keys/auth-key-size/kt%02x" % kt, out, kt == 0x80 and n != ks, {"kind": k, "alg": alg, "kt": kt, "n": n, "via": "set_keys"})
        elif k == "socket_alg_codes":
            for a in range(256):
                for p in (0, 1, 2, 3, 0x41, 0x82, 0xC1, 0x3F):
                    out = drivers.call(fast.SnmpV3ClientSocket, addr, eid, "u", a, b"\x55" * 20, p, b"\x66" * 20, 0, 0, 0, 0)
                    bad = (a & 0x3F) > 2 or (p & 0x3F) > 2
                    judge("socket/alg-codes", out, bad, {"kind": k, "a": a, "p": p})
            for p in range(256):
                out = drivers.call(fast.SnmpV3ClientSocket, addr, eid, "u", 2, b"password22", p, b"password33", 0, 0, 0, 0)
                judge("socket/priv-alg-codes", out, (p & 0x3F) > 2, {"kind": k, "a": 2, "p": p})
    agent.close()
    return res


def _cls(t):
    import re

    t = re.sub(r"\[.*?\]$", "", t).strip()
    t = re.sub(r"\(first octets .*?\)", "", t)
    return re.sub(r"[0-9a-f]{8,}", "#", re.sub(r"-?\d+", "N", t))[:100]


def gen_installed(tier):
    thorough = tier == "thorough"
    lens = [1, 2, 7, 8, 10, 16, 63, 64, 65, 1024, 2**20, 2**20 + 1] if thorough else [1, 8, 10, 64, 65, 2**20 + 1]
    hist = [["get", 0, "sys"], ["reply", 0, "ok", 1], ["get_many", 0, "pair"], ["refresh", 0]]
    for n in lens:
        for auth, priv in ((1, 0), (2, 0), (1, 1), (2, 2), (1, 2), (2, 1)):
            for kt, pkt in ((0, 0), (1, 1), (2, 2), (0, 1), (0, 2), (1, 0), (2, 0), (1, 2), (2, 1)):
                if not priv and kt != pkt:
                    continue
                for disc in (False, True):
                    if not thorough and n not in (8, 64) and (kt != pkt or disc) and not (kt, pkt) == (0, 1):
                        continue
                    cfg = Cfg("v3", auth=auth, priv=priv, key_type=kt, priv_key_type=pkt, discover=disc, auth_pass=password(n), priv_pass=password(n + 3)[3:] or b"x")
                    yield {"cfgs": [cfg.describe()], "history": ([["discover", 0, 2]] if disc else []) + hist}
                    if disc and n in (8, 64):
                        yield {"cfgs": [cfg.describe()], "history": [["discover", 0, 301]] + hist}
    # a refused key installation leaves the installed keys in place
    for auth, priv in ((1, 1), (2, 2), (1, 2), (2, 1)):
        for how in ("authlen", "privlen", "privempty", "privalg"):
            cfg = Cfg("v3", auth=auth, priv=priv)
            yield {"cfgs": [cfg.describe()], "history": [["get", 0, "sys"], ["set_keys_bad", 0, how], ["get", 0, "sys"], ["reply", 0, "ok", 1], ["refresh", 0], ["get_many", 0, "pair"]]}
    # the installed key survives datagrams that cannot be decrypted (ciphertext of 8m+k octets, garbage, a short AES reply)
    for auth, priv in ((1, 1), (2, 1), (1, 2), (2, 2)):
        cfg = Cfg("v3", auth=auth, priv=priv)
        h = [["get", 0, "sys"], ["reply", 0, "ok", 1]]
        for k in (1, 3, 7):
            h += [["get", 0, "sys"], ["reply", 0, "partial", k] if priv == 1 else ["reply", 0, "cut", 45, k], ["reply", 0, "garbage"], ["get_many", 0, "pair"], ["reply", 0, "octets", 30 + k]]
        yield {"cfgs": [cfg.describe()], "history": h}
    # identical octets for both keys, every pair of key types
    for auth, priv in ((1, 1), (2, 2), (1, 2), (2, 1)):
        for kt, pkt in itertools.product((0, 1, 2), repeat=2):
            for disc in (False, True):
                cfg = Cfg("v3", auth=auth, priv=priv, key_type=kt, priv_key_type=pkt, discover=disc, same_bytes=True, auth_pass=password(refcrypto.KEYLEN[auth]))
                yield {"cfgs": [cfg.describe()], "history": ([["discover", 0, 2]] if disc else []) + hist + ([] if disc else [["set_keys", 0], ["get", 0, "sys"]])}
    for elen in (0, 1, 5, 11, 17, 32) if thorough else (1, 32):
        if elen == 0:
            continue  # an empty engine id means "discover"
        for auth, priv in ((1, 1), (2, 2)):
            cfg = Cfg("v3", auth=auth, priv=priv, engine_id=bytes(range(1, elen + 1)))
            yield {"cfgs": [cfg.describe()], "history": hist}


def replay(case):
    common.prepare_stage()
    if "history" in case:
        probs, r = histories.run_history(case["cfgs"], case["history"], CLAUSES)
        return {"problems": probs}
    if case.get("kind") in ("master", "localized"):
        r = work_exposed([case])
        return {"violations": r["violations"]}
    if "klen" in case:
        return {"violations": work_public([case])["violations"]}
    return {"note": "malformed-material grid: re-run the check", "case": case}


def run(tier):
    common.prepare_stage()
    thorough = tier == "thorough"
    rec = common.Recorder(PROPERTY, tier, LEVEL, MODULE)
    rec.rule = (
        "get_master_key for password lengths 1..130, 2^k, 2^k+-1 (k<=20), beyond 1 MiB x {MD5,SHA1}; get_localized_key for engine-id lengths 0..32 x 2 patterns; keys as installed: "
        "password-length classes x 6 (auth,priv) pairs x 9 key-type pairs x {constructor, discovery+set_keys}, judged by HMAC validity and decryptability of emitted messages; public User "
        "classes with keys of 0..40 octets (padding/truncation); malformed grid: master-key sizes 0..64, all 256 algorithm codes, empty passwords, localized/master key sizes 0..64 for "
        "constructor and set_keys. Each enumerated case is distinct."
    )
    rec.assume("reference: RFC 3414 A.2 via hashlib (64-octet-chunk formulation cross-checked against the repeat-and-truncate formulation at start-up)")
    exposed = []
    for alg in (1, 2):
        for n in length_classes(thorough):
            exposed.append({"kind": "master", "alg": alg, "len": n})
        for elen in range(0, 33):
            for pat in (1, 0):
                exposed.append({"kind": "localized", "alg": alg, "plen": 10, "elen": elen, "pat": pat})
    common.run_cases(rec, work_exposed, exposed, chunk=12)
    common.run_cases(rec, work_installed, list(gen_installed(tier)), chunk=4)
    pub = []
    for auth, priv, kt in itertools.product((1, 2), (0, 1, 2), (1, 2)):
        for klen in (1, 5, 15, 16, 17, 19, 20, 21, 32, 40) if thorough else (5, 16, 20, 32):
            for disc in (False, True):
                if kt == 2 and disc:
                    continue  # a localized key is tied to a known engine id
                pub.append({"auth": auth, "priv": priv, "kt": kt, "klen": klen, "discover": disc})
    # mixed key types for the auth and the priv key through the public User classes
    for auth, priv in itertools.product((1, 2), (1, 2)):
        for kt, pkt in itertools.product((0, 1, 2), (0, 1, 2)):
            if kt == pkt:
                continue
            for disc in (False, True):
                if 2 in (kt, pkt) and disc:
                    continue
                for klen in (5, 16 if auth == 1 else 20, 25) + ((1, 15, 21, 40) if thorough else ()):
                    pub.append({"auth": auth, "priv": priv, "kt": kt, "pkt": pkt, "klen": klen, "discover": disc})
    for auth, priv, disc in itertools.product((1, 2), (1, 2), (False, True)):
        pub.append({"empty_priv": True, "auth": auth, "priv": priv, "discover": disc, "kt": 0, "klen": 0})
    common.run_cases(rec, work_public, pub, chunk=6)
    mal = [{"kind": k} for k in ("localized_master_len", "alg_codes", "empty_password", "socket_key_len", "socket_alg_codes")]
    common.run_cases(rec, work_malformed, mal, chunk=1)
    n = rec.counters["calls"]
    return rec.finish(evaluations=n, distinct_nontrivial=rec.distinct_n, states=rec.distinct_n, transitions=n, traces=rec.distinct_n)
