"""C07 - get / get_many results and SNMP exceptions map as documented.

Exhaustive enumeration of replies: 0..N varbinds over all 17 value kinds x OID choices,
for get and get_many, on the raw sockets (D-split) and through both public clients.
Oracle = the table in the property text.
"""

import itertools

from .. import common, drivers, refber as rb, values
from ..drivers import Cfg

PROPERTY = "C07"
LEVEL = "model_checking"
MODULE = __name__

R = (1, 3, 6, 1, 2, 1, 1, 5, 0)
O1 = (1, 3, 6, 1, 2, 1, 1, 6, 0)
O2 = (1, 3, 6, 1, 2, 1, 2, 2, 1, 10, 16384)
O3 = (1, 3, 6, 1, 4, 1, 4294967295, 1)
FRESH = [O1, O2, O3]
# long and wide names: BER content of 129 / 253 / 635 octets
WIDE = [(1, 3) + (300,) * 64, (1, 3) + (16383,) * 126, (2, 39) + (4294967295,) * 126 + (5,)]


def resolve(vbs):
    """[(kind, oidchoice)] -> [(arcs, V)]"""
    out = []
    fresh = iter(FRESH)
    for kind, ch in vbs:
        if ch == "req":
            oid = R
        elif isinstance(ch, str) and ch.startswith("w"):
            oid = WIDE[int(ch[1:])]
        elif ch == "dup" and out:
            oid = out[-1][0]
        else:
            oid = next(fresh)
        out.append((oid, values.representative(kind)))
    return out


def expected(op, vbs, report=False):
    if report:
        return ("exc", "SnmpAuthError")
    if op == "get":
        if len(vbs) == 0:
            return ("ok", None)
        if len(vbs) == 1:
            v = vbs[0][1]
            if v.kind in values.EXC_KINDS:
                return ("exc", "NoSuchInstance")
            if v.kind == "null":
                return ("ok", None)
            return ("ok", v.py)
        return ("exc", "SnmpError")
    d = {}
    for oid, v in vbs:
        if v.kind in values.DATA_KINDS:
            d[rb.oid_str(oid)] = v.py
    return ("ok", d)


def matches(exp, out):
    mod, fast = drivers.subject()
    if exp[0] == "exc":
        if out.kind != "exc":
            return False
        cls = getattr(fast, exp[1])
        if exp[1] == "SnmpError":
            return isinstance(out.exc, cls)
        return isinstance(out.exc, cls)
    if out.kind != "ok":
        return False
    e, g = exp[1], out.value
    if isinstance(e, dict):
        if not isinstance(g, dict) or set(e) != set(g):
            return False
        return all(values.py_equal(e[k], g[k]) for k in e)
    return values.py_equal(e, g)


def enumerate_vbs(nmax, kinds=values.ALL_KINDS):
    for n in range(nmax + 1):
        for ks in itertools.product(kinds, repeat=n):
            choice_sets = [("req", "o")] + [("o", "dup")] * (n - 1) if n else []
            for chs in itertools.product(*choice_sets):
                yield [[k, c] for k, c in zip(ks, chs)]


def gen_cases(tier):
    split_cfgs = [
        (Cfg("v2c"), 3),
        (Cfg("v1"), 3 if tier == "thorough" else 2),
        (Cfg("v3"), 3 if tier == "thorough" else 2),
        (Cfg("v3", auth=2, priv=2), 3 if tier == "thorough" else 2),
        (Cfg("v3", auth=1, priv=1), 2 if tier == "thorough" else 1),
    ]
    for cfg, nmax in split_cfgs:
        for op in ("get", "get_many"):
            for vbs in enumerate_vbs(nmax):
                yield {"driver": "split", "cfg": cfg.describe(), "op": op, "vbs": vbs, "report": False}
            for vbs in enumerate_vbs(1):
                yield {"driver": "split", "cfg": cfg.describe(), "op": op, "vbs": vbs, "report": False, "stale_first": True}
            if cfg.version == "v3":
                for rr in ("echo", "zero", "other"):
                    yield {"driver": "split", "cfg": cfg.describe(), "op": op, "vbs": [], "report": True, "report_rid": rr}
            # long / wide OIDs as varbind names (and, for the OID kind, as value next to them)
            for wi in range(len(WIDE)):
                for k in ("int", "octets", "oid", "null", "nosuchinstance"):
                    yield {"driver": "split", "cfg": cfg.describe(), "op": op, "vbs": [[k, "w%d" % wi]], "report": False}
                    yield {"driver": "split", "cfg": cfg.describe(), "op": op, "vbs": [["int", "req"], [k, "w%d" % wi]], "report": False}
                    yield {"driver": "split", "cfg": cfg.describe(), "op": op, "vbs": [[k, "w%d" % wi], ["octets", "o"]], "report": False}
    # Reports from a new boot epoch after the session has learnt a large engine time
    for cfg in (Cfg("v3"), Cfg("v3", auth=1), Cfg("v3", auth=2, priv=2), Cfg("v3", auth=1, priv=1)):
        for op in ("get", "get_many"):
            for clock, new in (((5, 1000), (6, 3)), ((5, 1000), (5, 100)), ((5, 1000), (5, 5000)), ((1, 151), (2, 0)), ((7, 2147483647), (8, 1)), ((2147483646, 500), (2147483647, 0))):
                yield {"driver": "split", "cfg": cfg.describe(), "op": op, "vbs": [], "report": True, "epoch": True, "clock": list(clock), "new_clock": list(new)}
    for driver in ("sync", "async"):
        for cfg in (Cfg("v1"), Cfg("v2c"), Cfg("v3"), Cfg("v3", auth=2, priv=2)):
            for op in ("get", "get_many"):
                for vbs in enumerate_vbs(2 if tier == "thorough" else 1):
                    yield {"driver": driver, "cfg": cfg.describe(), "op": op, "vbs": vbs, "report": False}
                for vbs in ([["int", "req"], ["int", "o"]], [["null", "req"], ["octets", "dup"]], [["int", "w0"]], [["int", "req"], ["octets", "w2"]]):
                    yield {"driver": driver, "cfg": cfg.describe(), "op": op, "vbs": vbs, "report": False}
                yield {"driver": driver, "cfg": cfg.describe(), "op": op, "vbs": [], "report": False, "silent": True}
                if cfg.version == "v3":
                    for rr in ("echo", "zero"):
                        yield {"driver": driver, "cfg": cfg.describe(), "op": op, "vbs": [], "report": True, "report_rid": rr}


def build_reply(cfg, req, case):
    vbs = resolve(case["vbs"])
    if case.get("report"):
        vb = [((1, 3, 6, 1, 6, 3, 15, 1, 1, 4, 0), values.v_unsigned("counter32", 3).tlv)]
        rid = {"echo": None, "zero": 0, "other": (req.request_id + 12345) & 0x7FFFFFFF}[case.get("report_rid", "echo")]
        return drivers.reply_for(cfg, req, vb, pdu_tag=rb.PDU_REPORT, flags=0, request_id=rid), vbs
    return drivers.reply_for(cfg, req, [(o, v.tlv) for o, v in vbs]), vbs


def run_epoch_case(case):
    """A session that has learnt a large engine time; the agent restarts and answers the next request with an
    authentic notInTimeWindow Report from the new epoch (boots+1, small time): SnmpAuthError, as for any Report."""
    mod, fast = drivers.subject()
    cfg = Cfg.from_desc(case["cfg"])
    op = case["op"]
    arg = rb.oid_str(R) if op == "get" else [rb.oid_str(R), rb.oid_str(O1)]
    w = drivers.SplitWorld(cfg)
    try:
        b0, t0 = case["clock"]
        for rounds in range(2):
            o = w.send(op, arg)
            if o.kind != "ok":
                return ("send-ok", None), o, 1
            req = drivers.open_request(cfg, w.take_request(), strict=False, check_mac=False)
            w.inject(drivers.reply_for(cfg, req, [(R, rb.enc_int(5))], boots=b0, time=t0 + rounds))
            out = w.recv(op)
            if out.kind != "ok":
                return ("ok", "priming reply"), out, 2
        o = w.send(op, arg)
        req = drivers.open_request(cfg, w.take_request(), strict=False, check_mac=False)
        vb = [((1, 3, 6, 1, 6, 3, 15, 1, 1, 2, 0), values.v_unsigned("counter32", 3).tlv)]
        nb, nt = case["new_clock"]
        w.inject(drivers.reply_for(cfg, req, vb, pdu_tag=rb.PDU_REPORT, boots=nb, time=nt, flags=1 if cfg.auth else 0))
        out = w.recv(op)
        return ("exc", "SnmpAuthError"), out, 6
    finally:
        w.close()


def run_case(case, worlds=None):
    """Execute one case against the implementation; returns (exp, Outcome, n_calls)."""
    if case.get("epoch"):
        return run_epoch_case(case)
    cfg = Cfg.from_desc(case["cfg"])
    op = case["op"]
    arg = rb.oid_str(R) if op == "get" else [rb.oid_str(R), rb.oid_str(O1)]
    if case["driver"] == "split":
        key = cfg.name
        w = None if worlds is None else worlds.get(key)
        if w is None:
            w = drivers.SplitWorld(cfg)
            if worlds is not None:
                worlds[key] = w
        stale = None
        if case.get("stale_first"):
            # an earlier request of the same kind went unanswered; its reply turns up now, ahead of the reply to this request:
            # "the matching reply" is the one to the request outstanding
            o = w.send(op, arg)
            if o.kind != "ok":
                return ("send-ok", None), o, 1
            old_req = drivers.open_request(cfg, w.take_request(), strict=False, check_mac=False)
            stale = drivers.reply_for(cfg, old_req, [(R, rb.enc_octets(b"stale"))])
        o = w.send(op, arg)
        if o.kind != "ok":
            return ("send-ok", None), o, 1
        data = w.take_request()
        req = drivers.open_request(cfg, data, strict=False, check_mac=False)
        rep, vbs = build_reply(cfg, req, case)
        if stale is not None:
            w.inject(stale)
        w.inject(rep)
        out = w.recv(op)
        if worlds is None:
            w.close()
        return expected(op, vbs, case.get("report")), out, 2
    # public clients
    holder = {}

    def responder(data, idx):
        if case.get("silent"):
            return []
        req = drivers.open_request(cfg, data, strict=False, check_mac=False)
        rep, vbs = build_reply(cfg, req, case)
        holder["vbs"] = vbs
        return [rep]

    vbs = resolve(case["vbs"])
    exp = ("exc", "TimeoutError") if case.get("silent") else expected(op, vbs, case.get("report"))
    tmo = 0.05 if case.get("silent") else 3.0
    if case["driver"] == "sync":
        w = drivers.SyncWorld(cfg, responder, timeout=tmo)
        try:
            fn = w.session.get if op == "get" else w.session.get_many
            out = drivers.call(fn, arg)
            errs = w.errors
        finally:
            w.close()
    else:

        async def client(session):
            if op == "get":
                return await session.get(arg)
            return await session.get_many(arg)

        out, reqs, errs = drivers.run_async(cfg, responder, client, timeout=tmo)
    if errs:
        raise drivers.MachineryError("agent error: %s" % errs[:2])
    return exp, out, 2


def matches_any(exp, out):
    if exp == ("exc", "TimeoutError"):
        return out.kind == "exc" and isinstance(out.exc, TimeoutError)
    return matches(exp, out)


def signature(case, exp, out):
    kinds = "+".join(k for k, _ in case["vbs"]) or "empty"
    return "%s/%s/%s/%s%s -> %s (expected %s)" % (
        case["driver"],
        Cfg.from_desc(case["cfg"]).name,
        case["op"],
("report-new-epoch" if case.get("epoch") else "report-rid-" + case.get("report_rid", "echo")) if case.get("report") else ("silent" if case.get("silent") else "n=%d:%s" % (len(case["vbs"]), kinds)),
        ("" if not any(c == "dup" for _, c in case["vbs"]) else ":dup") + (":after-a-late-reply-to-the-previous-request" if case.get("stale_first") else ""),
        out.exc_name if out.kind == "exc" else "value",
        exp[1] if exp[0] == "exc" else "value",
    )


def work(chunk):
    res = common.Result()
    worlds = {}
    for case in chunk:
        exp, out, n = run_case(case, worlds)
        res.count("api_calls", n)
        res.count("cases")
        res.outcome(out.exc_name if out.kind == "exc" else "value:" + type(out.value).__name__)
        if len(case["vbs"]) >= 1 or case.get("report") or case.get("silent"):
            res.distinct()
        if not matches_any(exp, out):
            # confirm on a fresh world before reporting
            exp2, out2, _ = run_case(case, None)
            fresh = not matches_any(exp2, out2)
            res.violation(
                signature(case, exp, out),
                "expected %r, observed %r (reproduced on a fresh session: %s)" % (exp, out.brief(), fresh),
                case,
            )
        elif len(res["samples"]) < 2 and len(case["vbs"]) == 2:
            res.sample({"case": case, "observed": values.show(out.value) if out.kind == "ok" else out.exc_name})
    for w in worlds.values():
        w.close()
    return res


def replay(case):
    common.prepare_stage()
    exp, out, _ = run_case(case, None)
    return {"expected": exp, "observed": out.brief(), "holds": matches_any(exp, out)}


def run(tier):
    common.prepare_stage()
    rec = common.Recorder(PROPERTY, tier, LEVEL, MODULE)
    rec.rule = (
        "every reply of 0..N varbinds over the 17 value kinds (13 data types, NULL, 3 exception values) x OID choice "
        "(requested / other / duplicate of previous) x {get, get_many} x configurations; plus v3 Report in place of the "
        "response (also an authentic Report from a new boot epoch after the session has learnt a large engine time) and a silent agent through the public clients. Non-trivial = at least one varbind, or Report, or silence; "
        "every enumerated case is distinct by construction."
    )
    rec.assume(
        "Linux loopback UDP delivers a datagram to the connected client socket (confirmed by select before each receive)",
        "reference BER encoder / USM sealing in vlib (self-tested against RFC/FIPS vectors)",
    )
    cases = list(gen_cases(tier))
    # slow public-client cases last and in smaller chunks
    fast_cases = [c for c in cases if c["driver"] == "split"]
    slow_cases = [c for c in cases if c["driver"] != "split"]
    common.run_cases(rec, work, fast_cases, chunk=1500)
    common.run_cases(rec, work, slow_cases, chunk=40)
    n = rec.counters["cases"]
    return rec.finish(
        evaluations=n,
        distinct_nontrivial=rec.distinct_n,
        states=n,
        transitions=rec.counters["api_calls"],
        traces=n,
    )
