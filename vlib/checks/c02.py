"""C02 - response values reach the caller exactly as the agent encoded them.

A boundary-complete value model is enumerated exhaustively; replies are built by the independent
reference encoder and sent through the real sockets (get, get_many, getnext, getbulk) and both
public clients; every delivered Python object and OID key must equal what the encoding denotes.
"""

import math

from .. import common, drivers, refber as rb, values
from ..drivers import Cfg
from ..values import V

PROPERTY = "C02"
LEVEL = "model_checking"
MODULE = __name__

BASE = (1, 3, 6, 1, 4, 1, 2011, 5)
ARCS = [0, 1, 127, 128, 255, 256, 16383, 16384, 2097151, 2097152, 268435455, 268435456, 2147483647, 2147483648, 4294967295]
UKINDS = ("counter32", "gauge32", "timeticks", "uint32")


# ------------------------------------------------------------------ value descriptors -> V


def build(d):
    """descriptor -> (V, tolerance_ulp, lenient) ; lenient: an error is acceptable, a wrong value is not."""
    k = d[0]
    form = d[-1] if isinstance(d[-1], dict) else {}
    if isinstance(d[-1], dict):
        d = d[:-1]
    lf = form.get("form")
    if k == "int":
        return values.v_int(d[1], lf), 0, False
    if k == "intraw":
        c = bytes.fromhex(d[1])
        return V("int", rb.tlv(0x02, c), int.from_bytes(c, "big", signed=True)), 0, True
    if k == "u":
        return values.v_unsigned(d[1], d[2], d[3] if len(d) > 3 else 0, lf), 0, False
    if k == "uraw":
        c = bytes.fromhex(d[2])
        return values.v_unsigned_raw(d[1], c, int.from_bytes(c, "big")), 0, True
    if k == "oct":
        n, pat = d[2], d[3]
        b = bytes(((i * pat + pat) & 0xFF) for i in range(n))
        return values.v_octets(b, d[1], lf), 0, False
    if k == "octraw":
        return values.v_octets(bytes.fromhex(d[2]), d[1], lf), 0, False
    if k == "oid":
        return values.v_oid(tuple(d[1])), 0, False
    if k == "ip":
        return values.v_ip(*d[1:5]), 0, False
    if k == "bool":
        return values.v_bool(d[1]), 0, False
    if k == "null":
        return values.v_null(), 0, False
    if k == "realdec":
        return values.v_real_decimal(d[1], d[2]), 0, False
    if k == "realbin":
        v = values.v_real_binary(d[1], d[2], d[3], d[4], d[5], d[6])
        tol = 0
        if d[2].bit_length() > 53 or (v.py != 0 and abs(v.py) < 2.3e-308):
            tol = 1
        # mantissas wider than 8 octets are legal BER but beyond what a float needs: the value or an SnmpError, nothing else
        return v, tol, d[2].bit_length() > 64
    if k == "realspecial":
        py = {0x40: math.inf, 0x41: -math.inf, 0x42: math.nan, 0x43: -0.0}[d[1]]
        return values.v_real_content(bytes([d[1]]), py), 0, False
    if k == "realzero":
        return values.v_real_content(b"", 0.0), 0, False
    raise ValueError(d)


def int_boundaries():
    out = set()
    for k in range(1, 9):
        lo, hi = -(1 << (8 * k - 1)), (1 << (8 * k - 1)) - 1
        for v in (lo, lo + 1, lo + 2, hi, hi - 1, hi - 2):
            out.add(v)
        for v in (-(1 << (8 * (k - 1))) if k > 1 else -1, (1 << (8 * (k - 1))) if k > 1 else 1):
            for dv in (-2, -1, 0, 1, 2):
                out.add(v + dv)
    out |= {-1, 0, 1, -129, -32769, -32767, -8388609, 2**31, 2**31 - 1, -(2**31), 2**32, 2**32 - 1, 2**63 - 1, -(2**63)}
    return sorted(v for v in out if -(2**63) <= v <= 2**63 - 1)


def unsigned_boundaries(bits):
    top = (1 << bits) - 1
    out = {0, 1, 127, 128, 255, 256, 32767, 32768, 65535, 65536, 2**24 - 1, 2**24, 2**31 - 1, 2**31, 2**31 + 1, 2**32 - 2, 2**32 - 1}
    if bits == 64:
        out |= {2**32, 2**32 + 1, 2**40, 2**55, 2**56 - 1, 2**63 - 1, 2**63, 2**63 + 5, 2**63 + 0x0102030405060708, 2**64 - 2, 2**64 - 1}
    return sorted(v for v in out if v <= top)


def real_values(thorough):
    out = [["realzero"], ["realspecial", 0x40], ["realspecial", 0x41], ["realspecial", 0x42], ["realspecial", 0x43]]
    nr1 = ["0", "1", "-1", "+5", "456", "007", "2147483647", "2147483648", "-2147483649", "4294967296", "123456789012345678"]
    nr2 = ["4.5", "-0.25", "0.0", "3.14159", "+17.0", "456.", ".5", "-.125", "1000000.000001"]
    nr3 = ["4567e-1", "1.5E+3", "1E0", "-2.5e-3", "1e308", "1e-308", "5e-324", "1.7976931348623157e308", "2.2250738585072014e-308", "9007199254740993e0", "+1.0E+0"]
    for t in nr1:
        out.append(["realdec", 1, t])
    for t in nr2:
        out.append(["realdec", 2, t])
    for t in nr3:
        out.append(["realdec", 3, t])
    mants = [1, 2**8 - 1, 2**16, 2**32 - 1, 2**32, 2**53 - 1, 2**53 + 1, 2**64 - 1, 3, 0x123456789]

    for sign in (1, -1):
        for base in (2, 8, 16):
            for f in range(4):
                for el in (1, 2, 3) + ((4,) if thorough else ()):
                    lim = 1 << (8 * el - 1)
                    exps = {-lim, -1, 0, 1, lim - 1, -10, 10, -1074 // {2: 1, 8: 3, 16: 4}[base], 1023 // {2: 1, 8: 3, 16: 4}[base]}
                    if el >= 3:
                        exps = {e for e in exps if abs(e) <= 40000} | {-40000, 40000}
                    for e in sorted(exps):
                        if not -lim <= e < lim:
                            continue
                        for m in mants if (thorough or f == 0) else mants[:4]:
                            out.append(["realbin", sign, m, base, f, e, el])
    return out


def value_model(tier):
    thorough = tier == "thorough"
    vals = []
    # INTEGER: every 1- and 2-octet minimal content, i.e. every value of -32768..32767
    for v in range(-32768, 32768):
        vals.append(["int", v])
    for v in int_boundaries():
        vals.append(["int", v])
    # (thorough: every INTEGER with three content octets as well - generated as compact spans, see gen_cases)
    # unsigned application types: every value of 0..65535 (1..3 content octets), then boundaries
    for kind in UKINDS:
        step = 1 if (thorough or kind == "counter32") else 7
        for v in range(0, 65536, step):
            vals.append(["u", kind, v])
        for v in unsigned_boundaries(32):
            vals.append(["u", kind, v])
            vals.append(["u", kind, v, 1])  # one extra leading zero octet (seen in the field)
    for v in range(0, 65536, 1 if thorough else 5):
        vals.append(["u", "counter64", v])
    for v in unsigned_boundaries(64):
        vals.append(["u", "counter64", v])
    # strings
    for kind in ("octets", "opaque", "objdesc"):
        for n in (0, 1, 2, 127, 128, 255, 256, 1000):
            for pat in (0, 1, 255):
                vals.append(["oct", kind, n, pat])
    # contents that look like something else: Net-SNMP's Opaque-wrapped Float / Double / Counter64 / I64, nested TLVs, text
    import struct as _st

    looks = ["9f7804" + _st.pack(">f", x).hex() for x in (1.0, 3.14159, 0.0, -2.5)] + ["9f78047fc00000", "9f7804ffffffff"]
    looks += ["9f7908" + _st.pack(">d", x).hex() for x in (1.0, 2.718281828, -0.0)] + ["9f79087ff8000000000000"]
    looks += ["9f760101", "9f7a0400000001", "9f7b08" + "00" * 7 + "05", "9f78", "9f7803aabbcc", "9f780500000000ff", "0500", "020105", "3000", "0403616263", "4401ff", "31", "2d31", "312e35", "6e616e", "00", "ff" * 9]
    # ... and every proper prefix of the wrapped Float / Double / Counter64 forms
    for full in ("9f7804" + _st.pack(">f", 2.5).hex(), "9f7908" + _st.pack(">d", 2.5).hex(), "9f7b08" + "00" * 7 + "09"):
        for k in range(1, len(full) // 2):
            if full[: 2 * k] not in looks:
                looks.append(full[: 2 * k])
        looks.append(full + "00")
    for kind in ("octets", "opaque", "objdesc"):
        for hx in looks:
            vals.append(["octraw", kind, hx])
    for ip in ((0, 0, 0, 0), (255, 255, 255, 255), (127, 0, 0, 1), (128, 0, 0, 0), (10, 255, 0, 1), (1, 2, 3, 4), (192, 168, 255, 254), (0, 0, 0, 255)):
        vals.append(["ip"] + list(ip))
    for a in ARCS:
        vals.append(["oid", [1, 3, a]])
        vals.append(["oid", [2, 39, a, a]])
        vals.append(["oid", [0, 0, 1, a, 0]])
    vals.append(["oid", [1, 3]])
    vals.append(["oid", [0, 0]])
    vals.append(["oid", [1, 3, 6, 1] + list(range(1, 125))])
    for o in (0x00, 0x01, 0xFF, 0x80):
        vals.append(["bool", o])
    vals += real_values(thorough)
    return vals


def boundary_subset(vals):
    """Values that get the expensive treatment (every position, every op, every configuration)."""
    out = []
    for d in vals:
        if d[0] == "int" and (abs(d[1]) > 40000 or d[1] in (-32768, -129, -128, -1, 0, 127, 128, 255, 256, 32767)):
            out.append(d)
        elif d[0] == "u" and (d[2] > 70000 or d[2] in (0, 127, 128, 255, 256, 65535)):
            out.append(d)
        elif d[0] == "octraw" and d[1] == "opaque" and d[2][:4] == "9f78":
            out.append(d)
        elif d[0] == "oct" and d[3] == 1:
            out.append(d)
        elif d[0] in ("ip", "bool", "realspecial", "realzero", "realdec"):
            out.append(d)
        elif d[0] == "oid":
            out.append(d)
        elif d[0] == "realbin" and d[2] in (1, 2**53 - 1, 2**64 - 1) and d[6] == 1 and d[5] in (-1, 0, 10):
            out.append(d)
    return out


def lenient_values():
    out = []
    for c in ("007f", "0000", "ff80", "ffff", "00000001", "ffffffffffffffffff", "000000000000000001"):
        out.append(["intraw", c])
    for kind in UKINDS:
        for c in ("ff", "80", "ffff", "ffffffff", "8000"):
            out.append(["uraw", kind, c])
    out.append(["uraw", "counter64", "ffffffffffffffff"])
    # binary REALs whose mantissa is wider than 8 octets (9..18 octets)
    for sign in (1, -1):
        for base in (2, 8, 16):
            for m in (2**64, 2**64 + 1, 2**72 - 1, 2**96 + 12345, 2**127, 2**128 - 1, 2**128, 2**136 + 7):
                for e, el in ((0, 1), (-70, 1), (3, 2)):
                    out.append(["realbin", sign, m, base, 0, e, el])
    return out


# ------------------------------------------------------------------ cases


def name_for(i, style):
    if style == "seq":
        return BASE + (i + 1,)
    a = ARCS[i % len(ARCS)]
    return BASE + (i + 1, a, ARCS[(i * 7 + 3) % len(ARCS)])


def gen_cases(tier):
    thorough = tier == "thorough"
    vals = value_model(tier)
    bnd = boundary_subset(vals)
    v2c = Cfg("v2c")
    # (a) the full model through get_many and getbulk, 40 values per reply
    per = 40
    for op in ("get_many", "getbulk"):
        for i in range(0, len(vals), per):
            yield {"driver": "split", "cfg": v2c.describe(), "op": op, "vals": vals[i : i + per], "names": "seq" if (i // per) % 2 else "arcs"}
    if thorough:
        # every INTEGER with three content octets: spans of 1000 values, expanded by the worker into replies of 40
        for start in range(-(1 << 23), 1 << 23, 1000):
            if -32768 <= start and start + 1000 <= 32768:
                continue
            yield {"driver": "split", "cfg": v2c.describe(), "op": "get_many" if (start // 1000) % 16 else "getbulk", "int_span": [start, 1000], "names": "seq" if (start // 1000) % 2 else "arcs"}
    # (b) boundary values: single-varbind get / getnext, positions first/middle/last of 3, long-form lengths
    for d in bnd:
        yield {"driver": "split", "cfg": v2c.describe(), "op": "get", "vals": [d], "names": "arcs"}
        yield {"driver": "split", "cfg": v2c.describe(), "op": "getnext", "vals": [d], "names": "seq"}
    filler = [["int", 1], ["oct", "octets", 2, 1]]
    for j, d in enumerate(bnd):
        for pos in (0, 1, 2):
            vs = list(filler)
            vs.insert(pos, d)
            yield {"driver": "split", "cfg": v2c.describe(), "op": "get_many" if j % 2 else "getbulk", "vals": vs, "names": "seq"}
    for d in bnd:
        v, _, _ = build(d)
        if len(v.tlv) - 2 < 128 and d[0] != "null" and len(v.tlv) >= 2 and v.tlv[1] < 0x80:
            for form in (1, 2, 3, 4):
                yield {"driver": "split", "cfg": v2c.describe(), "op": "get", "vals": [d + [{"form": form}]] if d[0] in ("int", "u", "oct") else [d], "names": "seq", "outer_form": form}
    # (b') RELATIVE-OID varbind names (library extension): chains of 1..3 relative names
    for c in gen_rel_cases(thorough):
        yield c
    # (c) lenient class
    for d in lenient_values():
        yield {"driver": "split", "cfg": v2c.describe(), "op": "get", "vals": [d], "names": "seq"}
    # (d) other versions / security levels / key types, and both public clients: boundary subset in batches
    cfgs = [Cfg("v1")] + drivers.k7()
    if thorough:
        cfgs += [Cfg("v3", auth=2, priv=2, key_type=2), Cfg("v3", auth=1, priv=1, key_type=1)]
    for cfg in cfgs:
        for op in ("get_many", "getbulk"):
            if op == "getbulk" and cfg.version == "v1":
                continue
            for i in range(0, len(bnd), per):
                yield {"driver": "split", "cfg": cfg.describe(), "op": op, "vals": bnd[i : i + per], "names": "arcs"}
        for d in bnd[:: 1 if thorough else 6]:
            yield {"driver": "split", "cfg": cfg.describe(), "op": "get", "vals": [d], "names": "seq"}
    # (d') a GetBulk reply may carry more varbinds than max-repetitions asked for (non-conformant, but well-formed):
    # every one of them is "a value at some position of the varbind list"
    for mr in (1, 3, 39):
        for cfg in (v2c, Cfg("v3", auth=1, priv=2)):
            for i in range(0, len(bnd), per * (1 if thorough else 4)):
                yield {"driver": "split", "cfg": cfg.describe(), "op": "getbulk", "vals": bnd[i : i + per], "names": "arcs", "max_rep": mr}
        for driver in ("sync", "async"):
            yield {"driver": driver, "cfg": v2c.describe(), "op": "getbulk", "vals": bnd[:per], "names": "arcs", "max_rep": mr}
    for driver in ("sync", "async"):
        for cfg in (Cfg("v1"), Cfg("v2c"), Cfg("v3", auth=2, priv=1)):
            for op in ("get_many", "getbulk", "getnext", "get"):
                if op == "getbulk" and cfg.version == "v1":
                    continue
                step = per if op in ("get_many", "getbulk") else 1
                sub = bnd if op in ("get_many", "getbulk") else bnd[:: 1 if thorough else 9]
                for i in range(0, len(sub), step):
                    yield {"driver": driver, "cfg": cfg.describe(), "op": op, "vals": sub[i : i + step], "names": "arcs"}


# ------------------------------------------------------------------ RELATIVE-OID varbind names (library extension)


def rel_resolve(prev, rel):
    """Semantics documented by the repository's own unit tests (test_normalize, test_parse_snmp_getresponse_many_rel):
    a relative name replaces the last len(rel) arcs of the previous varbind's (resolved) name; a relative name with at
    least as many arcs as the previous name has after its first two is a complete OID."""
    n, L = len(rel), len(prev)
    if n < L - 2:
        return tuple(prev[: L - n]) + tuple(rel)
    return tuple(rel)


def rel_content(arcs, full):
    if full:
        return bytes([arcs[0], arcs[1]]) + b"".join(rb.arc_bytes(a) for a in arcs[2:])
    return b"".join(rb.arc_bytes(a) for a in arcs)


def gen_rel_cases(thorough):
    base = BASE + (2, 1, 10, 11)
    rels = [(12,), (2, 1), (2,), (200,), (16384, 3), (3, 1, 2), (1, 1, 1), (9, 2, 16383)]
    if thorough:
        rels += [(4294967295,), (1, 128), (2, 1, 1, 1)]
    import itertools as it

    for k in (1, 2, 3):
        for chain in it.product(rels, repeat=k):
            if not thorough and k == 3 and (len(chain[0]) + len(chain[1]) + len(chain[2])) % 2:
                continue
            yield {"driver": "split", "cfg": Cfg("v2c").describe(), "op": "get_many", "rel": [list(base)] + [list(c) for c in chain]}
    # a relative name that is a complete OID
    yield {"driver": "split", "cfg": Cfg("v2c").describe(), "op": "get_many", "rel": [[1, 3, 6, 1, 2], [1, 3, 6, 2, 1, 5], [7]], "full": [1]}


def run_rel_case(case, worlds):
    cfg = Cfg.from_desc(case["cfg"])
    w = worlds.get(cfg.name)
    if w is None:
        w = worlds[cfg.name] = drivers.SplitWorld(cfg)
    chain = [tuple(x) for x in case["rel"]]
    full = set(case.get("full", ()))
    names = [chain[0]]
    vbs = [rb.varbind(rb.enc_oid(chain[0]), rb.enc_int(100))]
    for i, rel in enumerate(chain[1:], 1):
        names.append(rel_resolve(names[-1], rel))
        vbs.append(rb.varbind(rb.tlv(0x0D, rel_content(rel, i in full)), rb.enc_int(100 + i)))
    o = w.send("get_many", [rb.oid_str(chain[0])])
    req = drivers.open_request(cfg, w.take_request(), strict=False, check_mac=False)
    w.inject(drivers.reply_for(cfg, req, vbs))
    out = w.recv("get_many")
    exp = {}
    for i, nm in enumerate(names):
        exp[rb.oid_str(nm)] = 100 + i
    return exp, out




def make_reply(cfg, req, case, built):
    names = [name_for(i, case["names"]) for i in range(len(built))]
    if case["op"] in ("getbulk", "getnext"):
        # a walk needs increasing names below the requested base
        names = [BASE + (i + 1,) + (name_for(i, case["names"])[-1],) for i in range(len(built))]
    form = case.get("outer_form")
    vbs = [rb.varbind(rb.enc_oid(n), v.tlv, form) for n, (v, _, _) in zip(names, built)]
    if case["op"] == "getbulk":
        vbs.append(rb.varbind(rb.enc_oid((1, 3, 7)), rb.enc_int(0)))  # ends the walk
    return drivers.reply_for(cfg, req, vbs), names


def extract(case, out, names, n):
    """Delivered values in varbind order, or an error description."""
    op = case["op"]
    if out.kind != "ok":
        return None, "raised %r" % (out.brief(),)
    v = out.value
    if op == "get":
        return [(None, v)], None
    if op == "get_many":
        if not isinstance(v, dict):
            return None, "get_many returned %r" % type(v).__name__
        got = []
        for nm in names:
            k = rb.oid_str(nm)
            if k not in v:
                got.append((k, KeyError))
            else:
                got.append((k, v[k]))
        extra = set(v) - {rb.oid_str(nm) for nm in names}
        if extra:
            return None, "unexpected keys %s" % sorted(extra)[:3]
        return got, None
    if op == "getnext":
        if not (isinstance(v, tuple) and len(v) == 2):
            return None, "getnext returned %r" % (v,)
        if v[0] != rb.oid_str(names[0]):
            return None, "getnext delivered name %r, reply carried %s" % (v[0], rb.oid_str(names[0]))
        return [(v[0], v[1])], None
    # getbulk: list of pairs, ending with the stop marker (raw) or exhausted (public iterators)
    items = [x for x in v if x is not None]
    if len(items) != n:
        return None, "getbulk delivered %d items, reply carried %d in-subtree varbinds" % (len(items), n)
    got = []
    for nm, it in zip(names, items):
        if not (isinstance(it, tuple) and len(it) == 2) or it[0] != rb.oid_str(nm):
            return None, "getbulk item %r does not carry name %s" % (it, rb.oid_str(nm))
        got.append((it[0], it[1]))
    return got, None


def run_case(case, worlds=None):
    cfg = Cfg.from_desc(case["cfg"])
    built = [build(d) for d in case["vals"]]
    op = case["op"]
    mod, fast = drivers.subject()
    reqnames = [name_for(i, case["names"]) for i in range(len(built))]
    state = {}
    if case["driver"] == "split":
        key = cfg.name
        w = worlds.get(key) if worlds is not None else None
        if w is None:
            w = drivers.SplitWorld(cfg)
            if worlds is not None:
                worlds[key] = w
        it = None
        if op == "get":
            o = w.send("get", rb.oid_str(reqnames[0]))
        elif op == "get_many":
            o = w.send("get_many", [rb.oid_str(n) for n in reqnames])
        elif op == "getnext":
            it = fast.GetIter(rb.oid_str(BASE))
            o = w.send("getnext", it=it)
        else:
            it = fast.GetIter(rb.oid_str(BASE), case.get("max_rep", 50))
            o = w.send("getbulk", it=it)
        if o.kind != "ok":
            return None, "send failed %r" % (o.brief(),), built, 1
        req = drivers.open_request(cfg, w.take_request(), strict=False, check_mac=False)
        rep, names = make_reply(cfg, req, case, built)
        if len(rep) > 4000:
            return "skip", None, built, 1
        w.inject(rep)
        out = w.recv(op, it)
        if worlds is None:
            w.close()
        got, err = extract(case, out, names, len(built))
        return got, err, built, 2

    def responder(data, idx):
        req = drivers.open_request(cfg, data, strict=False, check_mac=False)
        if idx == 0:
            rep, names = make_reply(cfg, req, case, built)
            state["names"] = names
            state["len"] = len(rep)
            return [rep]
        return [drivers.reply_for(cfg, req, [((1, 3, 7), rb.enc_int(0))])]

    base = rb.oid_str(BASE)
    if case["driver"] == "sync":
        w = drivers.SyncWorld(cfg, responder, timeout=3.0, max_repetitions=case.get("max_rep", 50))
        try:
            s = w.session
            if op == "get":
                out = drivers.call(s.get, rb.oid_str(reqnames[0]))
            elif op == "get_many":
                out = drivers.call(s.get_many, [rb.oid_str(n) for n in reqnames])
            elif op == "getnext":
                out = drivers.call(lambda: next(iter(s.getnext(base))))
            else:
                out = drivers.call(lambda: list(s.getbulk(base)))
            errs = w.errors
        finally:
            w.close()
    else:

        async def client(s):
            if op == "get":
                return await s.get(rb.oid_str(reqnames[0]))
            if op == "get_many":
                return await s.get_many([rb.oid_str(n) for n in reqnames])
            if op == "getnext":
                async for x in s.getnext(base):
                    return x
            return [x async for x in s.getbulk(base)]

        out, reqs, errs = drivers.run_async(cfg, responder, client, timeout=3.0, max_repetitions=case.get("max_rep", 50))
    if errs:
        raise drivers.MachineryError("agent error %s" % errs[:2])
    if state.get("len", 0) > 4000:
        return "skip", None, built, 2
    got, err = extract(case, out, state.get("names", reqnames), len(built))
    return got, err, built, 2


def signature(case, d, what):
    cfg = Cfg.from_desc(case["cfg"])
    kind = d[0] if d[0] not in ("u", "uraw", "oct", "octraw") else "%s:%s" % (d[0], d[1])
    return "%s/%s/%s/%s: %s" % (case["driver"], cfg.name if cfg.version == "v3" else cfg.version, case["op"], kind, what)


def work(chunk):
    res = common.Result()
    worlds = {}
    for case in chunk:
        if case.get("sizes"):
            from . import c01

            before = res["counters"].get("size_datagrams", 0)
            c01.run_block(case, res)
            n = res["counters"].get("size_datagrams", 0) - before
            res.count("replies", n)
            res.count("values", n)
            continue
        if "rel" in case:
            exp, out = run_rel_case(case, worlds)
            res.count("api_calls", 2)
            res.count("replies")
            res.count("values", len(exp))
            res.distinct(len(exp))
            res.outcome("relative-names")
            mod, fast = drivers.subject()
            if out.kind == "exc" and isinstance(out.exc, (fast.SnmpError, RuntimeError)) and not out.is_panic():
                res.count("relative_names_refused")  # the extension may be refused, but never mis-resolved
            elif out.kind != "ok" or out.value != exp:
                res.violation(
                    "split/v2c/get_many/relative-names: wrong keys",
                    "names %s sent as one absolute + RELATIVE-OID names must resolve to %s, caller received %r" % (case["rel"], sorted(exp), out.brief()),
                    case,
                )
            continue
        if "int_span" in case:
            a, cnt = case["int_span"]
            for b in range(a, a + cnt, 40):
                sub = dict(case)
                del sub["int_span"]
                sub["vals"] = [["int", v] for v in range(b, min(b + 40, a + cnt)) if not -32768 <= v <= 32767]
                if sub["vals"]:
                    judge_reply(sub, worlds, res)
            continue
        judge_reply(case, worlds, res)
    for w in worlds.values():
        w.close()
    return res


def judge_reply(case, worlds, res):
    for _once in (0,):
        got, err, built, n = run_case(case, worlds)
        res.count("api_calls", n)
        res.count("replies")
        if got == "skip":
            res.count("skipped_too_large")
            continue
        if err is not None:
            lenient = all(b[2] for b in built)
            if lenient and "raised" in err and "Panic" not in err:
                res.count("lenient_refused", len(built))
                continue
            res.violation(signature(case, case["vals"][0], _cls(err)), "reply with %d values (%s ...): %s" % (len(built), case["vals"][:2], err), case)
            continue
        for d, (v, tol, lenient), (k, g) in zip(case["vals"], built, got):
            res.count("values")
            res.outcome(v.kind)
            res.distinct()
            if g is KeyError:
                res.violation(signature(case, d, "missing from result"), "value %s (TLV %s) missing under key %s" % (d, v.tlv.hex()[:60], k), _one(case, d))
            elif not values.py_equal(v.py, g, tol):
                res.violation(
                    signature(case, d, "wrong value"),
                    "value %s encoded as %s denotes %s, caller received %s" % (d, v.tlv.hex()[:80], values.show(v.py)[:80], values.show(g)[:80]),
                    _one(case, d),
                )
        if len(res["samples"]) < 2 and len(case["vals"]) > 3:
            res.sample({"op": case["op"], "cfg": Cfg.from_desc(case["cfg"]).name, "first_values": case["vals"][:4], "delivered": [values.show(g)[:40] for _, g in got[:4]]})


def _one(case, d):
    c = dict(case)
    c["vals"] = [d]
    return c


def _cls(t):
    import re

    return re.sub(r"\d+", "N", t)[:80]


def replay(case):
    if case.get("replay_kind") == "datagram":
        from . import c01

        return c01.replay(case)
    common.prepare_stage()
    if "rel" in case:
        exp, out = run_rel_case(case, {})
        return {"expected": exp, "observed": out.brief()}
    got, err, built, _ = run_case(case, None)
    return {"delivered": [values.show(g) for _, g in got] if isinstance(got, list) else got, "error": err, "expected": [values.show(b[0].py) for b in built]}


def run(tier):
    common.prepare_stage()
    rec = common.Recorder(PROPERTY, tier, LEVEL, MODULE)
    thorough = tier == "thorough"
    rec.rule = (
        "value model: every INTEGER of -32768..32767 (thorough: -2^23..2^23-1) plus the +-2 neighbourhood of every +-2^(8k-1), +-2^(8k); every unsigned 0..65535 and 2^24/2^31/2^32 (2^63/2^64) boundaries "
        "with and without an extra leading zero, for Counter32/Gauge32/TimeTicks/UInteger32/Counter64; strings of length 0,1,2,127,128,255,256,1000 x 3 patterns x 3 types; IpAddress, "
        "BOOLEAN, OID values and names over arcs at every base-128 boundary up to 2^32-1; REAL zero/special/decimal NR1-3 and binary (sign x base x F x exponent length x exponent x mantissa). "
        "Whole model via get_many and getbulk (40 per reply), boundary subset via get/getnext, at positions first/middle/last, in long-form lengths, on v1 and v3 K7, and through both "
        "public clients. One evaluation = one delivered value; all distinct by construction."
    )
    rec.assume(
        "reference encoder vlib/refber.py; REAL expected value = correctly rounded exact rational (1 ulp tolerance when the mantissa exceeds 53 bits or the result is subnormal)",
        "RELATIVE-OID varbind names are a library extension; their meaning is taken from the repository's own unit tests (tail replacement, chained); refusing them is accepted, resolving them to a different OID is not",
        "lenient class (non-minimal INTEGER contents, unsigned contents with the top bit set and no leading zero, binary REAL mantissas wider than 8 octets): an SnmpError is acceptable, a different value is not",
    )
    cases = list(gen_cases(tier))
    fast_cases = [c for c in cases if c["driver"] == "split"]
    slow = [c for c in cases if c["driver"] != "split"]
    common.run_cases(rec, work, fast_cases, chunk=60)
    common.run_cases(rec, work, slow, chunk=12)
    # one OCTET STRING reply of every datagram size up to the receive limit, per configuration: it must reach the caller intact
    sizes = []
    for cfg in [Cfg("v1"), Cfg("v2c")] + drivers.k7():
        if cfg.version == "v3" and cfg.priv:
            pl = sorted(set(list(range(0, 4100, 97 if not thorough else 13)) + [x + d for x in (0, 128, 256, 1024, 1900, 1960, 2048, 3900, 3960, 4000) for d in range(-4, 40)]))
            pl = [x for x in pl if x >= 0]
        else:
            pl = list(range(0, 4100, 1 if thorough else 3))
        sizes.append({"driver": "split", "cfg": cfg.describe(), "op": "get", "sizes": True, "judge_loss": True, "payloads": pl})
    common.run_cases(rec, work, sizes, chunk=1)
    n = rec.counters["values"]
    return rec.finish(evaluations=n, distinct_nontrivial=rec.distinct_n, states=rec.counters["replies"], transitions=rec.counters["api_calls"], traces=rec.counters["replies"])
