"""C19 - the rate limiter never lets the request rate exceed rps.

The real RPSPolicer.get_timeout is the transition function. For small intervals every path of K
consecutive calls over a gap alphabet is enumerated and the window property is checked directly on
the release times; for larger intervals a breadth-first search runs over canonical states (the phase
of the last release inside its slot, observed by probing a deep copy of the policer) with
per-transition invariants that imply the window bound by induction. Plus constructor refusals,
wait()/wait_sync() sleeping exactly the returned delay, and one policer wait before every datagram
of the sync and async clients.
"""

import copy
import itertools
import time
import math

from .. import common, drivers, refber as rb
from ..drivers import Cfg

PROPERTY = "C19"
LEVEL = "model_checking"
MODULE = __name__

OFFSETS = [0, 1, 1 << 40, 1 << 62]


def policer_mod():
    drivers.subject()
    import gufo.snmp.policer as pm

    return pm


def make(delta):
    """An RPSPolicer whose interval is `delta` ns; returns (policer, rps)."""
    pm = policer_mod()
    rps = 1e9 / delta
    return pm.RPSPolicer(rps), rps


def observed_interval(p, t0):
    """Interval as the policer shows it: second call at the very same instant must wait one interval."""
    q = copy.deepcopy(p)
    q.get_timeout(t0)
    return q.get_timeout(t0)


def gaps_for(delta):
    if delta <= 13:
        g = set(range(0, 2 * delta + 2))
        for k in (3, 4, 5):
            g |= {k * delta - 1, k * delta, k * delta + 1}
        g |= {10**6 * delta + j for j in (0, 1, delta - 1)}
        return sorted(x for x in g if x >= 0)
    g = {0, 1, 2, delta // 2, delta - 2, delta - 1, delta, delta + 1, delta + 2, delta + delta // 2}
    for k in (2, 3, 4, 5):
        g |= {k * delta - 1, k * delta, k * delta + 1}
    g |= {5 * delta + 7, 10**6 * delta + 3, 10**6 * delta + delta - 1}
    return sorted(g)


def check_step(delta, ts, delay, rel_prev):
    """Per-call clauses. Returns text or None."""
    if delay is not None:
        if isinstance(delay, bool) or not isinstance(delay, int):
            return "delay %r is not an int or None" % (delay,)
        if not 0 < delay <= delta:
            return "delay %d outside (0, interval=%d]" % (delay, delta)
    rel = ts + (delay or 0)
    if rel_prev is not None and rel < rel_prev:
        return "release went backwards"
    return None


def window_violation(delta, releases):
    n = len(releases)
    for i in range(n):
        for j in range(i + 2, n):
            k = j - i
            if not releases[j] - releases[i] > (k - 1) * delta:
                return "releases %d..%d span %d ns, must exceed %d*interval=%d (gaps make %d requests in that window)" % (
                    i,
                    j,
                    releases[j] - releases[i],
                    k - 1,
                    (k - 1) * delta,
                    k + 1,
                )
    return None


def run_path(delta, t0, gaps):
    """Drive a fresh policer along a gap sequence. Returns (releases, delays, problem)."""
    p, _ = make(delta)
    ts = t0
    rels, delays = [], []
    rel_prev = None
    for i, g in enumerate([0] + list(gaps)):
        ts = (rel_prev if rel_prev is not None else t0) + g
        d = p.get_timeout(ts)
        pr = check_step(delta, ts, d, rel_prev)
        if pr:
            return rels, delays, "call %d (gap %d): %s" % (i, g, pr)
        rel_prev = ts + (d or 0)
        rels.append(rel_prev)
        delays.append(d)
    return rels, delays, window_violation(delta, rels)


def work_paths(chunk):
    """chunk items: {'delta', 'first': [g1,g2], 'K'} -> enumerate all completions."""
    res = common.Result()
    for case in chunk:
        delta, K = case["delta"], case["K"]
        gaps = case.get("gaps") or gaps_for(delta)
        for tail in itertools.product(gaps, repeat=K - 1 - len(case["first"])):
            seq = list(case["first"]) + list(tail)
            rels, delays, prob = run_path(delta, case["t0"], seq)
            res.count("paths")
            res.count("calls", len(seq) + 1)
            res.outcome("delayed" if any(d for d in delays) else "undelayed")
            if prob:
                res.violation(
                    "paths/delta=%d: %s" % (delta, _cls(prob)),
                    "interval %d ns, t0=%d, gaps %s: %s; releases %s" % (delta, case["t0"], seq, prob, [r - case["t0"] for r in rels]),
                    {"kind": "path", "delta": delta, "t0": case["t0"], "gaps": seq},
                )
        res.distinct()
        if len(res["samples"]) < 1:
            res.sample({"delta": delta, "gaps": seq, "releases_rel_t0": [r - case["t0"] for r in rels], "delays": delays})
    return res


def _cls(text):
    import re

    return re.sub(r"-?\d+", "N", text)[:100]


def phase_of(p, release, delta):
    """Phase of `release` inside its slot, observed on a copy: asking again at the release instant
    must cost exactly the rest of the slot."""
    q = copy.deepcopy(p)
    d = q.get_timeout(release)
    if d is None:
        return None
    return delta - d


def bfs_states(delta, t0, max_depth=None):
    """Explicit-state search over phases. Returns (states, transitions, problems)."""
    gaps = gaps_for(delta)
    problems = []
    p0, _ = make(delta)
    p0.get_timeout(t0)
    start = phase_of(p0, t0, delta)
    if start is None:
        return 0, 0, [("bfs/delta=%d: second call at the same instant not delayed" % delta, "interval %d: a call at the release instant of the previous one returned None" % delta, {"kind": "bfs", "delta": delta, "t0": t0})]
    seen = {start: (p0, t0, [])}
    frontier = [start]
    transitions = 0
    depth = 0
    while frontier and (max_depth is None or depth < max_depth):
        depth += 1
        nxt = []
        for ph in frontier:
            pol, rel, hist = seen[ph]
            for g in gaps:
                q = copy.deepcopy(pol)
                ts = rel + g
                d = q.get_timeout(ts)
                transitions += 1
                pr = check_step(delta, ts, d, rel)
                nrel = ts + (d or 0)
                nph = None if pr else phase_of(q, nrel, delta)
                if not pr:
                    if nph is None or not 0 <= nph < delta:
                        pr = "phase %r of the new release outside [0, interval)" % (nph,)
                    elif (nrel - nph) - (rel - ph) < delta:
                        pr = "slot advanced by %d < interval %d" % ((nrel - nph) - (rel - ph), delta)
                if pr:
                    problems.append(
                        (
                            "bfs/delta=%d: %s" % (delta, _cls(pr)),
                            "interval %d, after gaps %s then gap %d: %s" % (delta, hist, g, pr),
                            {"kind": "path", "delta": delta, "t0": t0, "gaps": hist + [g]},
                        )
                    )
                    continue
                if nph not in seen:
                    seen[nph] = (q, nrel, hist + [g])
                    nxt.append(nph)
        frontier = nxt
    return len(seen), transitions, problems


def work_bfs(chunk):
    res = common.Result()
    for case in chunk:
        states, trans, probs = bfs_states(case["delta"], case["t0"], case.get("max_depth"))
        res.count("bfs_states", states)
        res.count("bfs_transitions", trans)
        res.count("calls", trans * 2)
        res.distinct()
        res.outcome("bfs")
        for sig, desc, c in probs:
            res.violation(sig, desc, c)
        res.sample({"bfs": case, "states": states, "transitions": trans})
    return res


# ------------------------------------------------------------------ misc clauses


def check_constructor(res):
    pm = policer_mod()
    for rps in (0, -1, -0.0, 0.0, float("nan"), float("inf"), float("-inf"), 1e9 + 1, 1.5e9, 2e9, 1e10, 1e300):
        try:
            p = pm.RPSPolicer(rps)
        except Exception:  # noqa: BLE001
            res.count("constructor_refusals")
            continue
        res.violation("constructor/accepts-%r" % (rps,), "RPSPolicer(%r) was accepted" % (rps,), {"kind": "ctor", "rps": repr(rps)})
    for rps in (1e9, 5e8, 1.0, 0.001, 3, 7.5):
        try:
            p = pm.RPSPolicer(rps)
            d = observed_interval(p, 12345)
            res.count("constructor_accepts")
            if d is None or abs(d - 1e9 / rps) > 1:
                res.violation(
                    "constructor/interval-%r" % (rps,), "RPSPolicer(%r) uses interval %r ns, 1/rps is %.3f ns" % (rps, d, 1e9 / rps), {"kind": "ctor", "rps": repr(rps)}
                )
        except Exception as e:  # noqa: BLE001
            res.violation("constructor/refuses-%r" % (rps,), "RPSPolicer(%r) refused: %r" % (rps, e), {"kind": "ctor", "rps": repr(rps)})


def check_wait(res):
    """wait()/wait_sync() sleep exactly the returned delay (when the module's clock/sleep names are used)."""
    import asyncio

    pm = policer_mod()
    clock = {"t": 1000}
    slept = []
    saved = {}
    names = ("perf_counter_ns", "sleep")
    if not all(hasattr(pm, n) for n in names):
        res.count("wait_check_skipped")
        return
    for n in names:
        saved[n] = getattr(pm, n)
    pm.perf_counter_ns = lambda: clock["t"]
    pm.sleep = lambda s: slept.append(s)
    orig_async_sleep = asyncio.sleep

    async def fake_sleep(s, *a, **k):
        slept.append(s)

    asyncio.sleep = fake_sleep
    try:
        p = pm.RPSPolicer(4.0)  # 250 ms
        expect = []
        for dt in (0, 0, 10_000_000, 300_000_000, 1, 250_000_000, 249_999_999, 249_999_000, 249_000_001, 248_999_999, 500_000_001, 0, 249_999_999):
            clock["t"] += dt
            q = copy.deepcopy(p)
            d = q.get_timeout(clock["t"])
            n0 = len(slept)
            p.wait_sync()
            got = slept[n0:]
            res.count("wait_calls")
            if (d or 0) > 0:
                if len(got) != 1 or abs(got[0] - d / 1e9) > 1e-12:
                    res.violation("wait_sync/sleep-mismatch", "delay %r ns but wait_sync slept %r" % (d, got), {"kind": "wait"})
                clock["t"] += d
            elif got:
                res.violation("wait_sync/needless-sleep", "no delay due but wait_sync slept %r" % (got,), {"kind": "wait"})
        p = pm.RPSPolicer(4.0)
        loop = asyncio.new_event_loop()
        try:
            for dt in (0, 0, 5, 260_000_000, 0, 249_999_999, 249_999_000, 248_000_000):
                clock["t"] += dt
                q = copy.deepcopy(p)
                d = q.get_timeout(clock["t"])
                n0 = len(slept)
                loop.run_until_complete(p.wait())
                got = slept[n0:]
                res.count("wait_calls")
                if (d or 0) > 0:
                    if len(got) != 1 or abs(got[0] - d / 1e9) > 1e-12:
                        res.violation("wait/sleep-mismatch", "delay %r ns but wait() slept %r" % (d, got), {"kind": "wait"})
                    clock["t"] += d
                elif got:
                    res.violation("wait/needless-sleep", "no delay due but wait() slept %r" % (got,), {"kind": "wait"})
        finally:
            loop.close()
    finally:
        for n in names:
            setattr(pm, n, saved[n])
        asyncio.sleep = orig_async_sleep


BASE = (1, 3, 6, 1, 2, 1, 2)
MIB = [BASE + (1, i) for i in range(1, 8)]


def inject_send_fault(session, fail_at):
    """Environment deviation: the sender callable handed to the session's real `_send` for datagram number `fail_at`
    answers EAGAIN once (output buffer full) and works when called again."""
    orig = session._send
    state = {"n": 0}

    async def patched(sender):
        i = state["n"]
        state["n"] += 1
        if i != fail_at:
            return await orig(sender)
        first = [True]

        def faulty():
            if first[0]:
                first[0] = False
                raise BlockingIOError(11, "injected EAGAIN")
            return sender()

        return await orig(faulty)

    session._send = patched


LIMIT_RPS = 50


def _restore(pm, saved):
    if "get_timeout" in saved:
        pm.RPSPolicer.get_timeout = saved["get_timeout"]
    if "sleep" in saved:
        pm.sleep = saved["sleep"]


def session_events(driver, cfg, script, send_fault=None, lose=None, both=False, mode="rec", silent=False):
    """Run client operations with a recording policer; returns the interleaved event string.
    lose = index of the datagram whose reply is lost once (the caller retries after the TimeoutError);
    both = the session is also given limit_rps (the explicit policer must still be the one consulted)."""
    pm = policer_mod()
    events = []
    tmo = 0.15 if lose is not None else 3.0
    if silent:
        tmo = 0.002  # much shorter than the interval: every call times out before the next slot
    extra = {"limit_rps": 100000} if both else {}
    seen = {"n": 0}
    usm_agent = None
    if cfg.version == "v3" and cfg.discover:
        from . import c13

        usm_agent = c13.UsmAgent(cfg, c13.CLOCKS[0])

    class Rec(pm.BasePolicer):
        def get_timeout(self, ts):
            events.append("W")
            return 2000 if mode == "delay" else None

    # mode "limit": the session is given limit_rps only; the RPSPolicer it builds is observed through its class
    # mode "delay": the policer asks for a (tiny) delay; the async client must take it with asyncio.sleep, never with
    #               the blocking sleep of wait_sync()
    saved = {}
    pol_kw = {"policer": Rec()}
    arrivals = []
    if mode == "limit":
        # the session is given limit_rps only and builds whatever policer it likes: judged by what reaches the agent -
        # any three consecutive datagrams span more than one interval (LIMIT_RPS = 50, i.e. 20 ms; 5 ms of slack for jitter)
        pol_kw = {"limit_rps": LIMIT_RPS}
    if mode == "delay":
        saved["sleep"] = pm.sleep
        def rec_sleep(s_):
            # blocking only matters where the event loop runs: a sleep handed to an executor thread blocks nothing
            import asyncio as _a

            try:
                _a.get_running_loop()
                events.append("B")
            except RuntimeError:
                events.append("B" if driver == "sync" else "")

        pm.sleep = rec_sleep

    def responder(data, idx):
        events.append("D")
        arrivals.append(time.monotonic())
        seen["n"] += 1
        if lose is not None and seen["n"] - 1 == lose:
            return []
        if silent:
            return []
        if usm_agent is not None:
            return usm_agent(data, idx)
        req = drivers.open_request(cfg, data, strict=False, check_mac=False)
        if req.pdu_tag == rb.PDU_GETNEXT:
            nxt = [o for o in MIB if o > req.oids[0]]
            o = nxt[0] if nxt else (1, 3, 7)
            return [drivers.reply_for(cfg, req, [(o, rb.enc_int(1))])]
        if req.pdu_tag == rb.PDU_GETBULK:
            nxt = [o for o in MIB if o > req.oids[0]][:3] or [(1, 3, 7)]
            return [drivers.reply_for(cfg, req, [(o, rb.enc_int(1)) for o in nxt])]
        if not req.oids:
            return [drivers.reply_for(cfg, req, [], pdu_tag=rb.PDU_REPORT)]
        return [drivers.reply_for(cfg, req, [(o, rb.enc_int(5)) for o in req.oids])]

    base = rb.oid_str(BASE)
    if driver == "sync":
        w = None
        try:
            w = drivers.SyncWorld(cfg, responder, timeout=tmo, max_repetitions=3, **pol_kw, **extra)
            s = w.session
            for op in script:
                if op == "enter":
                    s.__enter__()
                elif op == "exit":
                    s.__exit__(None, None, None)
                elif op == "get":
                    s.get(rb.oid_str(MIB[0]))
                elif op in ("get_t", "get_many_t"):
                    try:
                        s.get(rb.oid_str(MIB[0])) if op == "get_t" else s.get_many([rb.oid_str(MIB[0])])
                    except TimeoutError:
                        pass
                elif op == "get_many":
                    s.get_many([rb.oid_str(MIB[0]), rb.oid_str(MIB[1])])
                elif op == "get_many_one":
                    s.get_many([rb.oid_str(MIB[2])])
                elif op == "get_many_none":
                    s.get_many([])
                elif op in ("getnext", "getbulk") and lose is not None:
                    it = iter(s.getnext(base) if op == "getnext" else s.getbulk(base))
                    fails = 0
                    while fails < 3:
                        try:
                            next(it)
                        except StopIteration:
                            break
                        except TimeoutError:
                            fails += 1
                elif op == "getnext":
                    list(s.getnext(base))
                elif op == "getbulk":
                    list(s.getbulk(base))
                elif op == "fetch":
                    list(s.fetch(base))
                elif op == "refresh":
                    s._to_refresh = True
                    s.refresh()
            if w.errors:
                raise drivers.MachineryError(str(w.errors[:2]))
        finally:
            if w is not None:
                w.close()
            _restore(pm, saved)
    else:

        async def client(s):
            if send_fault is not None:
                inject_send_fault(s, send_fault)
            for op in script:
                if op == "enter":
                    await s.__aenter__()
                elif op == "exit":
                    await s.__aexit__(None, None, None)
                elif op == "get":
                    await s.get(rb.oid_str(MIB[0]))
                elif op in ("get_t", "get_many_t"):
                    try:
                        await (s.get(rb.oid_str(MIB[0])) if op == "get_t" else s.get_many([rb.oid_str(MIB[0])]))
                    except TimeoutError:
                        pass
                elif op == "get_many":
                    await s.get_many([rb.oid_str(MIB[0]), rb.oid_str(MIB[1])])
                elif op == "get_many_one":
                    await s.get_many([rb.oid_str(MIB[2])])
                elif op == "get_many_none":
                    await s.get_many([])
                elif op in ("getnext", "getbulk") and lose is not None:
                    it = (s.getnext(base) if op == "getnext" else s.getbulk(base)).__aiter__()
                    fails = 0
                    while fails < 3:
                        try:
                            await it.__anext__()
                        except StopAsyncIteration:
                            break
                        except TimeoutError:
                            fails += 1
                elif op == "getnext":
                    [x async for x in s.getnext(base)]
                elif op == "getbulk":
                    [x async for x in s.getbulk(base)]
                elif op == "fetch":
                    [x async for x in s.fetch(base)]
                elif op == "refresh":
                    s._to_refresh = True
                    await s.refresh()

        try:
            o, reqs, errs = drivers.run_async(cfg, responder, client, timeout=tmo, max_repetitions=3, **pol_kw, **extra)
        finally:
            _restore(pm, saved)
        if errs:
            raise drivers.MachineryError(str(errs[:2]))
        if o.kind != "ok":
            return "".join(events) + "!" + o.exc_name
    if mode == "limit":
        dense = [round(arrivals[i + 2] - arrivals[i], 4) for i in range(len(arrivals) - 2) if arrivals[i + 2] - arrivals[i] < 1.0 / LIMIT_RPS - 0.005]
        return "D" * len(arrivals) + ("!three datagrams within %s s at limit_rps=%d" % (dense[:3], LIMIT_RPS) if dense else "")
    return "".join(events)


def work_sessions(chunk):
    res = common.Result()
    for case in chunk:
        cfg = Cfg.from_desc(case["cfg"])
        ev = session_events(case["driver"], cfg, case["script"], case.get("send_fault"), case.get("lose"), case.get("both", False), case.get("mode", "rec"), case.get("silent", False))
        res.count("session_scripts")
        res.count("calls", ev.count("D"))
        res.distinct()
        res.outcome("session")
        n = ev.count("D")
        if case.get("mode") == "delay" and case["driver"] == "sync":
            ev = ev.replace("WB", "W")  # the sync client takes the delay with the blocking sleep: that is its job
        if case.get("mode") == "limit":
            bad = "!" in ev or n < 3
        else:
            bad = ev != "WD" * n or n == 0
        if bad:
            res.violation(
                "session/%s/%s/%s%s" % (case["driver"], cfg.name, "+".join(case["script"]), ("/EAGAIN-on-send" if case.get("send_fault") is not None else "") + ("/reply-lost" if case.get("lose") is not None else "") + ("/policer+limit_rps" if case.get("both") else "") + ("/" + case["mode"] if case.get("mode") else "")),
                ("rate limit not applied: %r" % ev) if case.get("mode") == "limit" else "policer waits (W) and datagrams (D) interleave as %r, expected one wait before every datagram" % ev,
                case,
            )
        res.sample({"session": case["driver"], "script": case["script"], "events": ev})
    return res


def work_misc(chunk):
    res = common.Result()
    check_constructor(res)
    check_wait(res)
    res.distinct()
    res.outcome("misc")
    return res


def replay(case):
    common.prepare_stage()
    if case.get("kind") == "path":
        rels, delays, prob = run_path(case["delta"], case["t0"], case["gaps"])
        return {"releases": rels, "delays": delays, "problem": prob}
    if "script" in case:
        return {"events": session_events(case["driver"], Cfg.from_desc(case["cfg"]), case["script"], case.get("send_fault"), case.get("lose"), case.get("both", False), case.get("mode", "rec"), case.get("silent", False))}
    r = common.Result()
    work_misc([0])
    return {"misc": "re-run"}


def run(tier):
    common.prepare_stage()
    rec = common.Recorder(PROPERTY, tier, LEVEL, MODULE)
    thorough = tier == "thorough"
    rec.rule = (
        "interval = the nanosecond interval the policer itself uses (observed: a second call at the same instant waits exactly one interval; "
        "checked to be within 1 ns of 1/rps). (a) all paths of K calls over gaps {0..2d+1, kd-1..kd+1, 10^6 d+j} for d<=5 from 4 time offsets; "
        "(b) BFS over all phase states for d in {2,5,8,13,64,1000} (complete) and to a bounded depth for d in {10^8,333333333,10^12} with invariants 0<delay<=d, slot advance >= d, phase in [0,d); "
        "(c) constructor refusals; (d) wait()/wait_sync() sleep == delay; (e) one policer wait before every datagram of both clients: every request type, session entry with engine-id discovery, a reply lost mid-walk and the iterator asked again, "
        "policer and limit_rps given together, limit_rps alone for every version, a policer asking for a delay (async: never taken with the blocking sleep), and (async) EAGAIN injected at the k-th send for every k."
    )
    rec.assume(
        "monotonic clock and sequential use as stated in the property (each call is made at or after the previous release)",
        "sub-nanosecond truncation of 1/rps is not judged: the interval is the integer number of nanoseconds the policer uses",
        "BFS canonical state = phase of the last release in its slot, read by probing a deepcopy of the policer",
    )
    K = 6 if thorough else 5
    cases = []
    for delta in (1, 2, 3, 5):
        gaps = gaps_for(delta)
        if not thorough and delta == 5:
            gaps = [g for g in gaps if g <= 2 * delta + 1 or g in (3 * delta, 10**6 * delta + 1)]
        for t0 in OFFSETS if delta <= 3 else OFFSETS[:2]:
            for first in itertools.product(gaps, repeat=2):
                cases.append({"delta": delta, "t0": t0, "first": list(first), "K": K, "gaps": gaps})
    common.run_cases(rec, work_paths, cases, chunk=8)
    bfs = [{"delta": d, "t0": t0} for d in (2, 5, 8, 13, 64, 1000) for t0 in OFFSETS]
    # huge intervals: the phase space is not exhaustible; all paths of bounded depth instead
    bfs += [{"delta": d, "t0": t0, "max_depth": 4 if thorough else 3} for d in (10**8, 333333333, 10**12) for t0 in OFFSETS[:2]]
    common.run_cases(rec, work_bfs, bfs, chunk=1)
    common.run_cases(rec, work_misc, [0], chunk=1)
    sess = []
    scripts = [["get", "get_many"], ["getnext"], ["getbulk"], ["fetch"], ["get", "getbulk", "get"], ["refresh", "get"], ["get", "get_many_one", "get_many", "get_many_one"]]
    for driver in ("sync", "async"):
        for cfg in (Cfg("v1"), Cfg("v2c"), Cfg("v3"), Cfg("v3", auth=2, priv=2)):
            for sc in scripts:
                if "refresh" in sc and cfg.version != "v3":
                    continue
                if "getbulk" in sc and cfg.version == "v1":
                    continue
                sess.append({"driver": driver, "cfg": cfg.describe(), "script": sc})
        # engine-id discovery: session entry sends two datagrams (discovery, time sync)
        for cfg in (Cfg("v3", discover=True), Cfg("v3", auth=2, priv=2, discover=True), Cfg("v3", auth=1, discover=True, key_type=2)):
            for sc in (["enter", "get"], ["enter", "refresh", "get_many"], ["enter", "getbulk"]):
                sess.append({"driver": driver, "cfg": cfg.describe(), "script": sc})
    # a reply lost in the middle of a walk, the caller asks the same iterator again; and policer + limit_rps given together
    for driver in ("sync", "async"):
        for op in ("getnext", "getbulk"):
            for k in range(0, 4):
                sess.append({"driver": driver, "cfg": Cfg("v2c").describe(), "script": [op, "get"], "lose": k})
        for sc in (["get", "get_many", "get"], ["getbulk"]):
            sess.append({"driver": driver, "cfg": Cfg("v2c").describe(), "script": sc, "both": True})
    # limit_rps alone (the session builds its own RPSPolicer) for every version; a policer that asks for a delay
    for driver in ("sync", "async"):
        for cfg in (Cfg("v1"), Cfg("v2c"), Cfg("v3"), Cfg("v3", auth=2, priv=2, discover=True)):
            pre = ["enter"] if cfg.version == "v3" else []
            for sc in (["get", "get_many", "get"], ["getnext"], ["fetch"]):
                sess.append({"driver": driver, "cfg": cfg.describe(), "script": pre + sc, "mode": "limit"})
            sess.append({"driver": driver, "cfg": cfg.describe(), "script": pre + ["get", "getnext", "get_many"], "mode": "delay"})
        # a dead agent and a time-out shorter than the interval: requests that time out still use up their slots
        for cfg in (Cfg("v2c"), Cfg("v3")):
            for sc in (["get_t"] * 6, ["get_many_t"] * 5, ["get_t", "get_t", "get_many_t", "get_t", "get_t", "get_many_t"]):
                sess.append({"driver": driver, "cfg": cfg.describe(), "script": sc, "mode": "limit", "silent": True})
        # one session object entered again and again (for oid in oids: with session: session.get(oid)): same limiter throughout
        for cfg in (Cfg("v2c"), Cfg("v1")):
            sess.append({"driver": driver, "cfg": cfg.describe(), "script": ["enter", "get", "exit", "enter", "get", "exit", "enter", "get", "exit", "enter", "get_many"], "mode": "limit"})
    # environment deviation (one per run): EAGAIN on the k-th send of the async client, for every k
    for cfg in (Cfg("v2c"), Cfg("v3", auth=2, priv=2, discover=True)):
        for sc, n in ((["get", "get_many", "get"], 3), (["getnext"], 8), (["getbulk", "get"], 4), (["fetch"], 3)):
            pre = ["enter"] if cfg.discover else []
            for k in range(n + len(pre) * 2):
                sess.append({"driver": "async", "cfg": cfg.describe(), "script": pre + sc, "send_fault": k})
    common.run_cases(rec, work_sessions, sess, chunk=4)
    states = rec.counters["bfs_states"] + rec.counters["paths"]
    return rec.finish(
        evaluations=rec.counters["calls"],
        distinct_nontrivial=rec.counters["paths"] + rec.counters["bfs_states"],
        states=states,
        transitions=rec.counters["bfs_transitions"] + rec.counters["calls"],
        traces=rec.counters["paths"] + rec.counters["session_scripts"],
    )
