"""C17 - oversized requests fail cleanly; buffer code stays in bounds.

(a) Rust explorer: every sequence of Buffer operations to a depth bound against a Vec-backed shadow model.
(b) size sweep through the real sockets: for every configuration and request type the message size is swept
    octet by octet (community / user-name length, last-OID length on top of k long OIDs) across 127/128,
    255/256 and the discovered capacity: what fits is emitted complete and strictly decodable, what does not
    raises SnmpEncodeError with nothing sent, and the next small request (same and another session) is intact.
"""

from .. import common, drivers, histories, loomx, mirix, refber as rb, rsx
from ..drivers import Cfg
from ..reqoracle import Call, SessionModel, check_request

PROPERTY = "C17"
LEVEL = "model_checking"
MODULE = __name__
CLAUSES = ("wire", "mac", "priv", "pad", "salt")


def small_probe(world, cfg, model, res, where, case):
    """A small request right after a failure must be intact."""
    o = world.send("get", rb.oid_str(histories.OIDS["sys"]))
    data = world.take_request() if o.kind == "ok" else None
    if data is None:
        res.violation("sweep/%s/next-request-lost" % cfg.name, "after a refused oversize request (%s) the next small request failed: %r" % (where, o.brief()), case)
        return
    req, probs = check_request(cfg, Call("get", [histories.OIDS["sys"]]), data, model, CLAUSES)
    for c, t in probs:
        res.violation("sweep/%s/next-request-corrupt: %s" % (cfg.name, _cls(t)), "after a refused oversize request (%s): %s" % (where, t), case)


def _cls(t):
    import re

    t = re.sub(r"\[.*?\]$", "", t).strip()
    t = re.sub(r"\(first octets .*?\)", "", t)
    return re.sub(r"[0-9a-f]{8,}", "#", re.sub(r"-?\d+", "N", t))[:90]


def run_sweep(case, res):
    mod, fast = drivers.subject()
    base = case["cfg"]
    dim = case["dim"]
    op = case["op"]
    points = []  # (value, 'ok'|'refused', size)
    # request-id / msgID are random INTEGERs of 1..4 content octets: pin them (RNG seam) so that the
    # message size is a function of the swept parameter only; without the seam a tolerance is used
    force = getattr(fast, "_verif_rng_force", None)
    slack = 0 if force is not None else 8
    other = drivers.SplitWorld(Cfg("v2c", community="other"))
    shared = None
    for v in case["values"]:
        d = dict(base)
        if dim == "community":
            d["community"] = "c" * v
        elif dim == "user":
            d["user"] = "u" * v
        elif dim == "engine":
            d["engine_id"] = bytes((0x80 | (i & 0x3F)) for i in range(v)).hex()
        cfg = Cfg.from_desc(d)
        if dim in ("community", "user", "engine") or shared is None:
            if shared is not None:
                shared.close()
            shared = drivers.SplitWorld(cfg)
        w = shared
        model = SessionModel(cfg) if cfg.version == "v3" else None
        if dim == "count":
            oids = [(1, 3)] * v  # the shortest varbinds there are: 7 octets each
        elif dim == "lastoid":
            oids = [histories.oid_n(128)] * case["k"] + [histories.oid_n(v)]
        else:
            oids = [histories.OIDS["sys"]]
        if force is not None:
            force([0x7FFFFFFF] * 4)
        if op == "get_many":
            call = Call("get_many", oids)
            o = w.send("get_many", [rb.oid_str(x) for x in oids])
        elif op == "get":
            call = Call("get", oids[:1])
            o = w.send("get", rb.oid_str(oids[0]))
        elif op == "getnext":
            call = Call("getnext", oids[-1:])
            o = w.send("getnext", it=fast.GetIter(rb.oid_str(oids[-1])))
        elif op == "getbulk":
            call = Call("getbulk", oids[-1:], max_rep=2147483647)
            o = w.send("getbulk", it=fast.GetIter(rb.oid_str(oids[-1]), 2147483647))
        else:
            call = Call("refresh", [])
            o = w.send("refresh")
        if force is not None:
            force([])
        res.count("requests")
        res.distinct()
        where = "%s=%d on %s %s" % (dim, v, cfg.name, op)
        one = dict(case)
        one["values"] = [v]
        if o.kind == "ok":
            data = w.take_request()
            if data is None:
                res.violation("sweep/%s/accepted-but-nothing-sent" % cfg.name, "%s: call returned but nothing reached the agent" % where, one)
                continue
            res.outcome("sent")
            req, probs = check_request(cfg, call, data, model, CLAUSES)
            for c, t in probs:
                res.violation("sweep/%s/%s/%s: %s" % (cfg.name, op, c, _cls(t)), "%s (%d octets): %s" % (where, len(data), t), one)
            points.append((v, "ok", len(data)))
        else:
            stray = w.take_request(wait=0.001)
            if o.is_panic():
                res.outcome("panic")
                res.violation("sweep/%s/%s/panic" % (cfg.name, op), "%s raised %s: %s" % (where, o.exc_name, str(o.exc)[:160]), one)
            elif not isinstance(o.exc, fast.SnmpEncodeError):
                res.outcome("other-exception")
                res.violation("sweep/%s/%s/wrong-exception" % (cfg.name, op), "%s raised %s instead of SnmpEncodeError" % (where, o.exc_name), one)
            else:
                res.outcome("refused")
            if stray is not None:
                res.violation("sweep/%s/%s/refused-but-sent" % (cfg.name, op), "%s raised but %d octets were sent" % (where, len(stray)), one)
            points.append((v, "refused", None))
            if dim == "lastoid":
                small_probe(w, cfg, model, res, where, one)
            small_probe(other, Cfg("v2c", community="other"), None, res, where + " (other session)", one)
    if shared is not None:
        shared.close()
    other.close()
    # monotone threshold: ok ... ok refused ... refused
    seen_refused = None
    for v, st, size in points:
        if st == "refused" and seen_refused is None:
            seen_refused = v
        elif st == "ok" and seen_refused is not None and v - seen_refused > slack:
            res.violation(
                "sweep/%s/%s/non-monotone" % (Cfg.from_desc(base).name, op),
                "%s=%d was refused but the larger %s=%d was sent (%d octets)" % (dim, seen_refused, dim, v, size),
                case,
            )
            break
    oks = [s for _, st, s in points if st == "ok"]
    return {"max_sent": max(oks) if oks else None, "first_refused": seen_refused, "exact": force is not None}


def work_padding(chunk):
    """The padding that follows the scoped PDU inside the ciphertext must be bytes the library wrote for *this* request:
    it may not depend on what the session decrypted or sent before (stale / never-written buffer content)."""
    res = common.Result()
    for case in chunk:
        cfg = Cfg.from_desc(case["cfg"])
        n = case["n"]
        pads = []
        for variant in case["variants"]:
            hist = list(variant) + [["get_n", 0, n]]
            probs, r = histories.run_history([cfg.describe()], hist, ("priv",), pin_ids=True)
            res.count("requests", r.datagrams)
            pads.append(r.trace[-1]["pad"] if r.trace else None)
        res.count("padding_cases")
        res.distinct()
        res.outcome("padding-%d" % (len(pads[0]) if pads[0] is not None else -1))
        if any(p is None for p in pads):
            continue  # undecryptable: C11's subject
        # compare only paddings of equal length (the length follows the scoped-PDU length; ids are pinned through the
        # RNG seam so that it is normally the same in all variants)
        by_len = {}
        for p in pads:
            by_len.setdefault(len(p), set()).add(p)
        if any(len(v) > 1 for v in by_len.values()):
            res.violation(
                "padding-depends-on-history/%s" % cfg.name,
                "get of a %d-arc OID on %s: the %d padding octets inside the ciphertext differ with the preceding traffic: %s (stale or never-written buffer content is being sent)"
                % (n, cfg.name, len(pads[0]), [p.hex() for p in pads]),
                case,
            )
    return res


def work_partial(chunk):
    """DES replies whose ciphertext is not a whole number of blocks: the octets that belong to no block were never
    written into the private buffer; nothing built from them may reach the caller."""
    res = common.Result()
    for case in chunk:
        probs, r = histories.run_history(case["cfgs"], case["history"], ("reply",))
        res.count("requests", r.datagrams)
        res.count("partial_block_histories")
        res.distinct()
        res.outcome("partial-block")
        for c, t, _ in probs:
            res.violation("never-written-bytes-delivered/%s" % Cfg.from_desc(case["cfgs"][0]).name, t, case)
    return res


def work_truncated(chunk):
    """After a complete (non-matching, hence skipped) datagram has passed through the receive buffer, every proper
    prefix of the matching reply is delivered: the missing tail was never written for *this* datagram, so nothing may
    be delivered from it."""
    from .. import refber as rb

    res = common.Result()
    SYS = (1, 3, 6, 1, 2, 1, 1, 5, 0)
    for case in chunk:
        cfg = Cfg.from_desc(case["cfg"])
        w = drivers.SplitWorld(cfg)
        try:
            o = w.send("get", rb.oid_str(SYS))
            req = drivers.open_request(cfg, w.take_request(), strict=False, check_mac=False)
            genuine = drivers.reply_for(cfg, req, [(SYS, rb.enc_octets(b"G" * case["n"]))])
            decoy = drivers.reply_for(cfg, req, [(SYS, rb.enc_octets(b"LEFTOVER" * (case["n"] // 8 + 1))[: case["n"] + 2])], request_id=(req.request_id + 1) & 0x7FFFFFFF)
            decoy = drivers.reply_for(cfg, req, [(SYS, rb.enc_octets((b"LEFTOVER" * (case["n"] // 8 + 1))[: case["n"]]))], request_id=(req.request_id + 1) & 0x7FFFFFFF)
            for t in range(1, len(genuine)):
                w.inject(decoy)
                w.recv("get")
                w.inject(genuine[:t])
                out = w.recv("get")
                res.count("requests")
                res.count("truncated_datagrams")
                res.distinct()
                res.outcome("truncated:" + ("value" if out.kind == "ok" else out.exc_name))
                if out.kind == "ok" or out.is_panic():
                    res.violation(
                        "stale-bytes-read/%s" % (cfg.name if cfg.version == "v3" else cfg.version),
                        "the first %d of %d octets of the reply (after a complete foreign datagram of the same size) produced %r" % (t, len(genuine), out.brief()),
                        {"cfg": case["cfg"], "n": case["n"], "truncated": True},
                    )
                    break
        finally:
            w.close()
    return res


def work(chunk):
    res = common.Result()
    res["sweeps"] = []
    for case in chunk:
        info = run_sweep(case, res)
        res.count("sweeps")
        if case["dim"] == "count":
            if info["max_sent"] is not None and info["first_refused"] is not None:
                res.setdefault("count_sweeps", []).append((Cfg.from_desc(case["cfg"]).name, info["max_sent"], info["first_refused"]))
            continue
        if info["first_refused"] is not None and info["max_sent"] is not None:
            res["exact"] = info["exact"]
            res["sweeps"].append((Cfg.from_desc(case["cfg"]).name if case["dim"] == "lastoid" else Cfg.from_desc(case["cfg"]).version + ("" if Cfg.from_desc(case["cfg"]).version != "v3" else "-" + Cfg.from_desc(case["cfg"]).name.split("v3-")[1]), case["dim"], case["op"], info["max_sent"]))
        if len(res["samples"]) < 1:
            res.sample({"cfg": Cfg.from_desc(case["cfg"]).name, "dim": case["dim"], "op": case["op"], "values": case["values"][:5] + ["..."] + case["values"][-3:], "max_sent": info["max_sent"], "first_refused": info["first_refused"]})
    return res


def gen_cases(tier, cap):
    thorough = tier == "thorough"
    lo = list(range(0, 301))
    hi = list(range(cap - 140, cap + 121))
    cfgs = [Cfg("v1"), Cfg("v2c")] + drivers.k7()
    for cfg in cfgs:
        d = cfg.describe()
        dim = "community" if cfg.version != "v3" else "user"
        ops = ["get", "getnext", "getbulk", "get_many"] + (["refresh"] if cfg.version == "v3" else [])
        for op in ops:
            if not thorough and op in ("getnext", "get_many") and cfg.version == "v3" and cfg.priv == 0 and cfg.auth:
                continue
            yield {"cfg": d, "dim": dim, "op": op, "values": lo if thorough or op == "get" else lo[::3]}
            yield {"cfg": d, "dim": dim, "op": op, "values": hi}
        if cfg.version == "v3" and (thorough or cfg.name in ("v3-noauth-nopriv-kt0", "v3-sha1-aes-kt0", "v3-md5-des-kt0")):
            # the engine id is written twice (USM header, scoped PDU): lengths across 127/128 and 255/256 (it stays far from the
            # capacity, so this sweep takes no part in the cross-dimension comparison of the largest datagram)
            yield {"cfg": d, "dim": "engine", "op": "get", "values": list(range(1, 301))}
            yield {"cfg": d, "dim": "engine", "op": "getbulk", "values": list(range(120, 136)) + list(range(250, 262))}
        for k in (0, 1, 2, 27, 28, 29, 30, 31):
            yield {"cfg": d, "dim": "lastoid", "op": "get_many", "k": k, "values": list(range(2, 129))}
        # number of varbinds: the shortest possible varbinds, one more per step, until the request no longer fits
        yield {"cfg": d, "dim": "count", "op": "get_many", "values": list(range(1, 40)) + list(range(240, 640))}
        if thorough:
            for op in ("getnext", "getbulk"):
                yield {"cfg": d, "dim": "lastoid", "op": op, "k": 0, "values": list(range(2, 129))}


def replay(case):
    if case.get("engine") == "loomx":
        from .. import loomx as _lx

        return _lx.replay(case)
    if case.get("engine") == "rsx":
        return rsx.replay(case)
    common.prepare_stage()
    if "history" in case:
        probs, r = histories.run_history(case["cfgs"], case["history"], ("reply",))
        return {"problems": [(c, t) for c, t, _ in probs]}
    if case.get("truncated"):
        r = work_truncated([case])
        return {"violations": [(v[0], v[1]) for v in r["violations"]]}
    if "variants" in case:
        r = work_padding([case])
        return {"violations": [(v[0], v[1]) for v in r["violations"]]}
    res = common.Result()
    info = run_sweep(case, res)
    return {"info": info, "violations": [(v[0], v[1]) for v in res["violations"]]}


def run(tier):
    common.prepare_stage()
    rec = common.Recorder(PROPERTY, tier, LEVEL, MODULE)
    rec.rule = (
        "(a) all sequences of %d buffer operations over a 46-symbol alphabet {push, push_u8, push_tag_len, push_tagged, skip+fill, reset, set/get bookmark, receive-fill + as_slice} with "
        "sizes {0,1,2,127,128,255,256,C-5..C+1,65535} vs a Vec shadow model compared after every operation; (b) request-size sweep octet by octet: community / user-name length over "
        "[0..300] and [C-140..C+120] x {get,getnext,getbulk,get_many,refresh}, last-OID length 2..128 arcs on top of k in {0,1,2,27..31} 128-arc OIDs, for v1, v2c and the 7 v3 security "
        "configurations; C is discovered from Buffer::default().free(), never hard-coded." % (5 if tier == "thorough" else 4)
    )
    rec.assume(
        "request-id and msgID are pinned to 4-octet values through the RNG seam during the sweep (their random width would otherwise move the threshold by up to 6 octets; "
        "without the seam an 8-octet tolerance is applied)",
        "every proper prefix of a reply, delivered after a complete foreign datagram of the same size went through the receive buffer, yields an error or is skipped - never a value",
        "a DES reply whose ciphertext is not a whole number of blocks must not be delivered (the tail was never written into the private buffer)",
        "padding inside the ciphertext may have any value the library writes for the request at hand, but must be the same whatever the session sent or decrypted before",
        "request size grows monotonically with the swept parameter; privacy adds a second (private) buffer, so for privacy configurations only monotonicity, clean refusal and intact "
        "follow-up requests are required, not one common threshold",
        "(c) loom explores the real pool.rs/buffer.rs (std::sync mapped to loom::sync by a textual shim) for 2-3 threads x 1-3 acquire/release rounds, preemption bound 2-3",
        "thorough tier: all 400 depth-2 sequences over a 20-symbol alphabet are replayed under Miri (cargo +nightly miri) as an undefined-behaviour monitor; skipped with a note if the toolchain is absent",
    )
    rep = rsx.run("c17", tier, rec)
    # (c) the shared pool under all interleavings (loom, preemption-bounded)
    for th, rounds, bound in ((2, 2, 3), (3, 1, 2)) + (((3, 2, 2), (2, 3, 3)) if tier == "thorough" else ()):
        loomx.explore(rec, th, rounds, bound)
    if tier == "thorough":
        # UB monitor (not the enumerator): the same operation/shadow code over buffer.rs under Miri, depth 2
        mirix.run(rec, depth=2)
    cap = rec.counters.get("rsx_capacity", 0) or 4080
    # rsx counters are summed per shard-less keys: capacity is reported once
    rec.extra["discovered_capacity"] = cap
    cases = list(gen_cases(tier, cap))
    sweeps = []
    lp = common.log_path(PROPERTY)

    def on_failure(f):
        if f.kind == "error":
            rec.machinery_errors.append("worker exception: %s" % f.detail[-600:])
        else:
            rec.violation("sweep/process-%s" % f.kind, "size sweep %s: %s" % (f.kind, f.detail), f.case)

    from .. import pool

    for _, res in pool.run(work, [[c] for c in cases], timeout=600, case_timeout=300, log_path=lp, on_failure=on_failure):
        sweeps += res.pop("sweeps")
        for name, mx, first in res.pop("count_sweeps", []):
            # one more 7-octet varbind was refused: the largest request sent must be within one varbind (+ length-form
            # growth) of the capacity
            if mx < cap - 16 and not ("des" in name or "aes" in name):
                rec.violation("sweep/%s/get_many/count-refused-although-it-fits" % name, "get_many with %d shortest OIDs was refused although the largest request sent is only %d octets (capacity %d)" % (first, mx, cap), {"note": "count sweep", "config": name})
        if res.pop("exact", True) is False:
            rec.extra["id_width_tolerance"] = 8
        rec.merge(res)
    # padding octets must not depend on the session's history
    pcases = []
    variants = [
        [],
        [["get_n", 0, 5], ["reply", 0, "octets", 40]],
        [["get_n", 0, 9], ["reply", 0, "octets", 77], ["get_many", 0, "forty"]],
        [["get_many", 0, "pair"], ["reply", 0, "ok", 1]],
    ]
    for cfg in drivers.k7():
        if not cfg.priv:
            continue
        for n in range(2, 20):
            pcases.append({"cfg": cfg.describe(), "n": n, "variants": variants})
    for _, res in pool.run(work_padding, [pcases[i : i + 6] for i in range(0, len(pcases), 6)], timeout=600, case_timeout=300, log_path=lp, on_failure=on_failure):
        rec.merge(res)
    # DES: ciphertext of 8m+k octets after a valid reply has left plaintext in the private buffer
    part = []
    for auth in (1, 2):
        cfg = Cfg("v3", auth=auth, priv=1)
        for k in range(1, 8):
            h = [["get", 0, "sys"], ["reply", 0, "octets", 61], ["get", 0, "sys"], ["reply", 0, "partial", k], ["reply", 0, "octets", 20 + k]]
            part.append({"cfgs": [cfg.describe()], "history": h})
    # AES: scoped PDU k octets short after a complete reply of the same shape (the decrypt buffer still holds its plaintext)
    for auth in (1, 2):
        cfg = Cfg("v3", auth=auth, priv=2)
        for n in (3, 9, 15):
            h = []
            for k in (1, 2, 7, 14):
                h += [["get", 0, "sys"], ["reply", 0, "octets", 40 + n], ["get", 0, "sys"], ["reply", 0, "cut", 40 + n, k], ["reply", 0, "octets", 40 + n]]
            part.append({"cfgs": [cfg.describe()], "history": h})
    for _, res in pool.run(work_partial, [part[i : i + 4] for i in range(0, len(part), 4)], timeout=600, case_timeout=300, log_path=lp, on_failure=on_failure):
        rec.merge(res)
    # truncated datagrams after a complete one
    tcases = [{"cfg": c.describe(), "n": n} for c in (Cfg("v1"), Cfg("v2c"), Cfg("v3")) for n in (8, 40, 200)]
    for _, res in pool.run(work_truncated, [[c] for c in tcases], timeout=600, case_timeout=300, log_path=lp, on_failure=on_failure):
        rec.merge(res)
    # one common threshold per non-privacy configuration across octet-granular dimensions
    by = {}
    for name, dim, op, mx in sweeps:
        by.setdefault(name, set()).add(mx)
    rec.extra["largest_datagram_sent"] = {k: sorted(v) for k, v in by.items()}
    for name, sizes in by.items():
        if "des" in name or "aes" in name:
            continue
        if max(sizes) - min(sizes) > rec.extra.get("id_width_tolerance", 0):
            rec.violation(
                "sweep/%s/inconsistent-capacity" % name,
                "largest datagram that could be sent differs between sweep dimensions: %s (all are swept octet by octet, so they must agree)" % sorted(sizes),
                {"note": "cross-sweep comparison", "config": name},
            )
    n = rec.counters["rsx_sequences"] + rec.counters["requests"]
    return rec.finish(evaluations=n, distinct_nontrivial=n, states=n, transitions=rec.counters["rsx_operations"] + rec.counters["requests"], traces=n)
