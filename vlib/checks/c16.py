"""C16 - decoding an element reads exactly its declared extent (Rust explorer, metamorphic)."""

from .. import common, rsx

PROPERTY = "C16"
LEVEL = "model_checking"
MODULE = __name__


def replay(case):
    return rsx.replay(case)


def run(tier):
    rec = common.Recorder(PROPERTY, tier, LEVEL, MODULE)
    rec.rule = (
        "corpus: 20 tags x every content of length 0..3 over an 8-symbol alphabet + boundary encodings (9-octet Counter64, 8-octet INTEGER, 5-octet arcs, REAL forms, long-form strings); "
        "for every element x that one of 19 decoders accepts and every suffix s (length 1-2 over %s, length 3 over %s): from_ber(x||s) must give the same value and remainder s; "
        "each value embedded in a non-last varbind / followed by junk inside its varbind; every TLV node of 200 skeleton messages re-declared with a length running past its enclosing "
        "element (short form, 0x83/0x84/0x85/0x88 forms) or declared shorter than its children must be rejected; a complete element refused alone stays refused whatever follows; bytes after the "
        "top-level message must be rejected; decrypt path: scoped PDUs (value length 0..39) whose right-edge elements declare 1..16 octets more than the ciphertext delivers, DES and AES, after 3 "
        "different encrypt histories on the same key object, must be rejected." % (("all 256 octets", "30 symbols") if tier == "thorough" else ("30 symbols", "8 symbols"))
    )
    rec.assume(
        "a Report PDU body is carried opaquely by the library (never decoded), so lengths inside it are not judged",
        "msgSecurityParameters is a message layer of its own (serialized USM SEQUENCE inside an OCTET STRING): bytes after that SEQUENCE, with all enclosing lengths consistent, count as bytes after a message and must cause rejection; "
        "extra elements inside other fixed-arity SEQUENCEs are not judged (the decoder never reads them); in a varbind list (SEQUENCE OF) a last element header whose declared contents lie outside the list must cause rejection",
        "contextName is an element like any other: the PDU after it decodes as in the same message with an empty contextName, whatever the name contains",
    )
    rsx.run("c16", tier, rec)
    n = rec.counters["rsx_evaluations"]
    d = rec.counters["rsx_decodable_elements"] * rec.counters["rsx_suffixes"] // max(1, 19)
    return rec.finish(evaluations=max(n, 1), distinct_nontrivial=max(n, 2), states=max(n, 1), transitions=max(n, 1), traces=n)
