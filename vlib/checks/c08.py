"""C08 - the OID sent is the OID asked for; invalid OID text is refused.

Every string up to a length over an 11-symbol alphabet, every OID of 2..4 arcs over boundary arcs,
and OIDs of 2..130 arcs are handed to the real API (get_many / get / GetIter); the OID octets inside
the captured request are compared with the reference encoder, the same OID is echoed back by the
agent and the rendered text compared with the input.
"""

import itertools
import re

from .. import common, drivers, refber as rb
from ..drivers import Cfg

PROPERTY = "C08"
LEVEL = "model_checking"
MODULE = __name__

ALPHABET = "0123" + "49" + ".-+ a"
ARCS = [0, 1, 2, 3, 39, 40, 41, 79, 80, 119, 120, 127, 128, 255, 256, 16383, 16384, 2**21 - 1, 2**21, 2**28 - 1, 2**28, 2**32 - 1, 2**32, 2**64]
CANON = re.compile(r"\A(0|[1-9][0-9]*)\Z")
LOOSE = re.compile(r"\A\+?[0-9]+\Z")
MAXARC = 2**32 - 1


def canonical_arcs(s):
    """arcs if s is canonical dotted decimal that MUST be accepted, else None."""
    parts = s.split(".")
    if len(parts) < 2 or len(parts) > 128:
        return None
    if not all(CANON.match(p) for p in parts):
        return None
    arcs = tuple(int(p) for p in parts)
    if arcs[0] > 2 or arcs[1] > 39 or any(a > MAXARC for a in arcs):
        return None
    return arcs


def denoted_arcs(s):
    """arcs if every component is a (possibly '+'-signed / zero-padded) decimal numeral and X.690 can encode the OID."""
    parts = s.split(".")
    if len(parts) < 2 or not all(LOOSE.match(p) for p in parts):
        return None
    arcs = tuple(int(p) for p in parts)
    if arcs[0] > 2 or (arcs[0] < 2 and arcs[1] > 39):
        return None
    return arcs


def probe(w, s, entry):
    """Hand s to the API; returns (outcome, oid_content_on_wire or None, echoed_text or None)."""
    mod, fast = drivers.subject()
    it = None
    if entry == "get_many":
        o = w.send("get_many", [s])
    elif entry == "get":
        o = w.send("get", s)
    else:
        c = drivers.call(fast.GetIter, s, 10) if entry == "bulk" else drivers.call(fast.GetIter, s)
        if c.kind != "ok":
            return c, None, None
        it = c.value
        o = w.send("getbulk" if entry == "bulk" else "getnext", it=it)
    if o.kind != "ok":
        stray = w.take_request(wait=0)
        return o, (b"<sent>" if stray is not None else None), None
    data = w.take_request()
    if data is None:
        return o, None, None
    try:
        req = rb.parse_message(data, strict=True)
    except rb.StrictError:
        return o, b"<unparsable>", None
    if not req.oid_contents or len(req.oid_contents) != 1:
        return o, b"<no-oid>", None
    wire = req.oid_contents[0]
    echoed = None
    if entry == "get_many":
        # echo the very octets back as the name
        vb = rb.varbind(rb.tlv(0x06, wire), rb.enc_int(1))
        pdu = rb.build_pdu(rb.PDU_RESPONSE, req.request_id, 0, 0, [vb])
        w.inject(rb.build_community_msg(req.version, req.community, pdu))
        r = w.recv("get_many")
        if r.kind == "ok" and isinstance(r.value, dict) and len(r.value) == 1:
            echoed = next(iter(r.value))
        else:
            echoed = r
    return o, wire, echoed


def judge(s, entry, out, wire, echoed):
    """Returns None or (signature, text)."""
    canon = canonical_arcs(s)
    if out.kind == "exc" and out.is_panic():
        return ("%s/panic" % entry, "input %r raised %s" % (s, out.exc_name))
    if out.kind == "exc":
        if wire is not None:
            return ("%s/refused-but-sent" % entry, "input %r raised %s but a datagram was sent" % (s, out.exc_name))
        if canon is not None:
            return ("%s/valid-refused/%s" % (entry, shape(s)), "valid OID %r was refused with %s" % (s, out.exc_name))
        return None
    if wire is None:
        return ("%s/accepted-but-nothing-sent" % entry, "input %r accepted but no datagram captured" % (s,))
    arcs = canon if canon is not None else denoted_arcs(s)
    if arcs is None:
        return ("%s/invalid-accepted/%s" % (entry, shape(s)), "invalid OID text %r was accepted and sent as %s" % (s, wire.hex()))
    ref = rb.oid_content(arcs)
    if wire != ref:
        return ("%s/wrong-oid-sent/%s" % (entry, shape(s)), "input %r was sent as %s, it denotes %s" % (s, wire.hex(), ref.hex()))
    if canon is not None and entry == "get_many":
        if echoed != s:
            return ("%s/render-mismatch/%s" % (entry, shape(s)), "OID %r echoed by the agent was rendered as %r" % (s, echoed if isinstance(echoed, str) else echoed.brief()))
    return None


def shape(s):
    parts = s.split(".")
    def cls(p):
        if not p:
            return "empty"
        if not LOOSE.match(p):
            return "junk"
        v = int(p)
        if p.startswith("+"):
            return "plus"
        if len(p) > 1 and p[0] == "0":
            return "padded"
        for lim, name in ((39, "<=39"), (127, "<=127"), (16383, "<=2^14"), (2**21 - 1, "<=2^21"), (2**28 - 1, "<=2^28"), (2**32 - 1, "<=2^32")):
            if v <= lim:
                return name
        return ">2^32"
    cs = [cls(p) for p in parts]
    return "n%d:%s" % (min(len(parts), 5), ",".join(cs[:2] + sorted(set(cs[2:]))))


def work(chunk):
    res = common.Result()
    w = drivers.SplitWorld(Cfg("v2c"))
    for case in chunk:
        kind = case["kind"]
        if kind == "strings":
            n, prefix = case["len"], case["prefix"]
            it = (prefix + "".join(t) for t in itertools.product(ALPHABET, repeat=n - len(prefix)))
            entries = ("get_many",)
        elif kind == "arcs":
            first = case["first"]
            it = (".".join(str(a) for a in (first,) + t) for k in case["ks"] for t in itertools.product(ARCS, repeat=k))
            entries = ("get_many",)
        elif kind == "followups":
            run_followups(case, res, w)
            continue
        else:
            it = iter(case["strings"])
            entries = ("get_many", "get", "iter", "bulk")
        for s in it:
            for entry in entries:
                out, wire, echoed = probe(w, s, entry)
                res.count("inputs")
                if out.kind == "ok":
                    res.count("accepted")
                    res.distinct()
                    res.outcome("accepted")
                else:
                    res.outcome(out.exc_name)
                v = judge(s, entry, out, wire, echoed)
                if v:
                    res.violation(v[0], v[1], {"kind": "list", "strings": [s]})
                elif out.kind == "ok" and len(res["samples"]) < 2 and len(s) > 5:
                    res.sample({"input": s, "entry": entry, "wire_oid": wire.hex(), "echoed": echoed if isinstance(echoed, str) else None})
    w.close()
    return res


FBASE = (1, 3, 6, 1, 4, 1, 9)
FOLLOW = sorted(FBASE + t for t in ((1, 1, 1000), (1, 2, 1), (1, 2, 1, 5), (1, 300), (2,), (2, 16384, 1), (2, 16384, 2097152, 7), (3,), (3, 0), (4294967295,)))


def run_followups(case, res, w):
    """The OID of every follow-up request of a walk is exactly the OID the previous reply named - for every increasing
    sequence of reply OIDs whose encodings grow and shrink."""
    mod, fast = drivers.subject()
    for method in ("getnext", "getbulk"):
        for n in range(1, case["depth"] + 1):
            for seq in itertools.combinations(FOLLOW, n):
                it = fast.GetIter(rb.oid_str(FBASE), 10) if method == "getbulk" else fast.GetIter(rb.oid_str(FBASE))
                want = FBASE
                res.count("inputs")
                res.count("accepted")
                res.distinct()
                res.outcome("followups")
                for step, oid in enumerate(seq + (None,)):
                    o = w.send(method, it=it)
                    data = w.take_request() if o.kind == "ok" else None
                    prob = None
                    if data is None:
                        prob = "request %d not sent: %r" % (step, o.brief())
                    else:
                        try:
                            req = rb.parse_message(data, strict=True)
                            if list(req.oids) != [want]:
                                prob = "request %d names %s, the walk is at %s" % (step, [rb.oid_str(x) for x in req.oids], rb.oid_str(want))
                        except rb.StrictError as e:
                            prob = "request %d is not a well-formed message: %s" % (step, e)
                    if prob:
                        res.violation("followup/%s/step%d: %s" % (method, min(step, 3), re.sub(r"[0-9.]{4,}", "OID", prob)[:60]), "replies %s: %s" % ([rb.oid_str(x) for x in seq], prob), {"kind": "followups", "depth": case["depth"]})
                        break
                    if oid is None:
                        break
                    pdu = rb.build_pdu(rb.PDU_RESPONSE, req.request_id, 0, 0, [(oid, rb.enc_int(step))])
                    w.inject(rb.build_community_msg(req.version, req.community, pdu))
                    r = w.recv(method, it)
                    if r.kind != "ok":
                        res.violation("followup/%s/reply-refused" % method, "replies %s: reply %d (%s) raised %r" % ([rb.oid_str(x) for x in seq], step, rb.oid_str(oid), r.brief()), {"kind": "followups", "depth": case["depth"]})
                        break
                    want = oid


def gen_cases(tier):
    thorough = tier == "thorough"
    maxlen = 7 if thorough else 6
    for n in range(0, 4):
        yield {"kind": "strings", "len": n, "prefix": ""}
    for n in range(4, maxlen + 1):
        plen = 2 if n <= 5 else 3
        for p in itertools.product(ALPHABET, repeat=plen):
            yield {"kind": "strings", "len": n, "prefix": "".join(p)}
    for first in ARCS:
        yield {"kind": "arcs", "first": first, "ks": [1, 2]}
        if first <= 3 or thorough:
            yield {"kind": "arcs", "first": first, "ks": [3]}
    special = []
    for n in range(2, 131):
        special.append("1.3" + ".1" * (n - 2))
        special.append("2.39" + ".4294967295" * (n - 2))
    special += ["1.3.6.1.2.1.1.5.0", "0.0", "2.39", "1.40.1", "3.1.1", "1.3.", ".1.3", "1..3", "1", "", "1.3.6.1.4.1.4294967296", "1.3.-1", "1.3. 6", " 1.3.6", "1.3.6 ",
                "1.3.6\n", "1.3.0x10", "1.3.1e3", "١.٣.٦", "1.3.6.１", "+1.3.6", "1.+3.6", "01.3.6", "1.03.6", "1.3.00", "2.40", "2.100.3", "1.3.99999999999999999999", "1.3.6." + "9" * 40]
    for a in ARCS:
        special += ["1.3.%d" % a, "1.3.6.%d.0" % a, "2.39.%d.%d" % (a, a), "0.%d" % a, "%d.3" % a]
    # long OIDs whose BER content crosses 127/128 and 255/256 octets (arcs of 1..5 octets), through every entry incl. GetBulk
    for arc, per in ((1, 1), (300, 2), (70000, 3), (3000000, 4), (4294967295, 5)):
        for n in (24, 25, 26, 27, 31, 32, 33, 42, 43, 44, 50, 51, 52, 63, 64, 65, 84, 85, 86, 126, 127, 128):
            special.append("1.3" + (".%d" % arc) * (n - 2))
    yield {"kind": "list", "strings": special}
    yield {"kind": "followups", "depth": 4 if thorough else 3}


def replay(case):
    common.prepare_stage()
    w = drivers.SplitWorld(Cfg("v2c"))
    out = []
    if case.get("kind") == "followups":
        res = common.Result()
        run_followups(case, res, w)
        w.close()
        return [(v[0], v[1]) for v in res["violations"]]
    for s in case["strings"]:
        for entry in ("get_many", "get", "iter", "bulk"):
            o, wire, echoed = probe(w, s, entry)
            out.append({"input": s, "entry": entry, "outcome": o.brief(), "wire": wire.hex() if wire else None, "echoed": echoed if isinstance(echoed, str) else None, "verdict": judge(s, entry, o, wire, echoed)})
    w.close()
    return out


def run(tier):
    common.prepare_stage()
    rec = common.Recorder(PROPERTY, tier, LEVEL, MODULE)
    maxlen = 7 if tier == "thorough" else 6
    rec.rule = (
        "(a) every string of length 0..%d over the alphabet %r through get_many; (b) every OID of 2..4 arcs over the boundary arcs %s; (c) 2..130-arc OIDs, sign/padding/whitespace/unicode "
        "specials and long OIDs crossing 127/128 and 255/256 content octets with arcs of 1..5 octets, through get_many, get, GetIter/GetNext and GetIter/GetBulk (request must be strictly well-formed); (d) walks: for every increasing sequence of <= %d reply OIDs "
        "out of 10 whose encodings grow and shrink, each follow-up request (GetNext, GetBulk) names exactly the OID of the previous reply. Non-trivial = the input was accepted (a request was emitted and checked on the wire and echoed back)." % (maxlen, ALPHABET, ARCS, 4 if tier == "thorough" else 3)
    )
    rec.assume(
        "canonical dotted decimal with >=2 arcs, first 0..2, second 0..39, arcs <= 2^32-1 and <= 128 arcs must be accepted; anything else may be refused, or - only if every component is a "
        "decimal numeral (optionally '+'-signed or zero-padded) denoting an OID X.690 can encode - sent as exactly that OID",
    )
    common.run_cases(rec, work, list(gen_cases(tier)), chunk=2, timeout=900, case_timeout=300)
    n = rec.counters["inputs"]
    return rec.finish(evaluations=n, distinct_nontrivial=rec.counters["accepted"], states=n, transitions=n + rec.counters["accepted"], traces=n)
