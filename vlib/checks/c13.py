"""C13 - engine discovery and time sync follow the agent.

(a) raw sockets: discovery / set_keys / time-sync flows and request histories for every security
    configuration and (mixed) key type, with agent clocks that jump forwards and backwards, and the
    deviations: foreign engine id, wrong user / msgID / request-id (must not update state), a stray
    Report before the genuine one, a lost probe;
(b) the same through context-manager entry / refresh() of both public clients against a scripted
    USM agent.
Every request must carry the learned engine id and the boots/time of the most recent accepted
message, verify under keys localized to that engine id, and decrypt.
"""

import itertools

from .. import common, drivers, histcheck, histories, refber as rb, values
from ..drivers import Cfg
from ..reqoracle import Call, SessionModel, check_request

PROPERTY = "C13"
LEVEL = "model_checking"
MODULE = __name__
CLAUSES = ("usm", "mac", "priv", "wire")

work_hist = histcheck.make_work(CLAUSES)

STEPS = [
    ["get", 0, "sys"],
    ["get_many", 0, "pair"],
    ["getbulk", 0, "sys", 5],
    ["refresh", 0],
    ["reply", 0, "ok", 0],
    ["reply", 0, "ok", 1],
    ["reply", 0, "ok", 2],
    ["reply", 0, "ok", 3],
    ["reply", 0, "ok", 5],
    ["reply", 0, "report", 4],
    ["reply", 0, "ok-foreign"],
    ["reply", 0, "report-foreign"],
    ["reply", 0, "ok-wronguser"],
    ["reply", 0, "ok-wrongmsgid"],
    ["reply", 0, "ok-wrongrid"],
    ["timeout", 0],
]


def step_sequences(depth):
    for h in itertools.product(STEPS, repeat=depth):
        outstanding = False
        ok = True
        for a in h:
            if a[0] in ("reply", "timeout"):
                if not outstanding:
                    ok = False
                    break
                # non-matching replies leave the request outstanding
                if a[0] == "timeout" or a[2] in ("ok", "report"):
                    outstanding = False
            else:
                outstanding = True
        if ok:
            yield [list(a) for a in h] + [["get", 0, "sys"]]


def gen_hist_cases(tier):
    thorough = tier == "thorough"
    depth = 4 if thorough else 3
    base_cfgs = drivers.k7()
    for cfg in base_cfgs:
        for disc in (False, True):
            c = Cfg("v3", auth=cfg.auth, priv=cfg.priv, discover=disc)
            pre = [["discover", 0, 0]] if disc else []
            if cfg.priv == 0 or thorough or (cfg.auth, cfg.priv) in ((2, 2), (1, 1)):
                for h in step_sequences(depth if (cfg.auth, cfg.priv) in ((0, 0), (2, 2)) else depth - 1):
                    yield {"class": "steps", "cfgs": [c.describe()], "history": pre + h}
    # real time passing between messages: the stamps stay those of the last accepted message
    for cfg in (Cfg("v3", auth=1), Cfg("v3", auth=2, priv=2), Cfg("v3", auth=2, priv=1, discover=True)):
        pre = [["discover", 0, 0]] if cfg.discover else []
        h = pre + [["get", 0, "sys"], ["reply", 0, "ok", 4], ["sleep", 0, 1.15], ["get", 0, "sys"], ["timeout", 0], ["sleep", 0, 1.15], ["refresh", 0], ["reply", 0, "report", 1], ["get_many", 0, "pair"]]
        yield {"class": "slow", "cfgs": [cfg.describe()], "history": h}
    # discovery variants x key types (mixed) x engine-id lengths
    kts = [(0, 0), (1, 1), (2, 2), (0, 1), (0, 2), (1, 0), (2, 0), (1, 2), (2, 1)]
    tail = [["get", 0, "sys"], ["reply", 0, "ok", 3], ["get_many", 0, "pair"], ["reply", 0, "ok", 5], ["refresh", 0], ["reply", 0, "report", 1], ["getbulk", 0, "sys", 3]]
    for (a, p), (kt, pkt), el, var in itertools.product(((0, 0), (1, 0), (2, 0), (1, 1), (1, 2), (2, 1), (2, 2)), kts, (5, 12, 32), (0, 1, 2, 3, 100, 101, 200, 203, 300, 302)):
        if (not p and kt != pkt) or (not a and (kt, pkt) != (0, 0)):
            continue
        if not thorough and (el == 12 or var in (1, 3, 101, 203, 302)) and (kt, pkt) not in ((0, 0), (0, 1)):
            continue
        c = Cfg("v3", auth=a, priv=p, key_type=kt, priv_key_type=pkt, discover=True, engine_id=bytes(range(0x80, 0x80 + el)))
        yield {"class": "discovery", "cfgs": [c.describe()], "history": [["discover", 0, var]] + tail}
    # engine id given: the very first message already carries it
    for (a, p), (kt, pkt), el in itertools.product(((0, 0), (1, 0), (2, 1), (1, 2), (2, 2)), kts, (5, 32)):
        if (not p and kt != pkt) or (not a and (kt, pkt) != (0, 0)):
            continue
        c = Cfg("v3", auth=a, priv=p, key_type=kt, priv_key_type=pkt, engine_id=bytes(range(0x80, 0x80 + el)))
        yield {"class": "given", "cfgs": [c.describe()], "history": tail}


# ------------------------------------------------------------------ public clients


class UsmAgent:
    """Scripted authoritative engine: discovery Report, time-window Report for probes, responses otherwise."""

    def __init__(self, cfg, clocks, lose_first=False, ctx_other=False):
        self.ctx_other = ctx_other
        self.cfg = cfg
        self.clocks = clocks
        self.n = 0
        self.captured = []
        self.sent_clock = []  # per request index: clock carried by the reply (or None when lost)
        self.lose_first = lose_first

    def __call__(self, data, idx=None):
        cfg = self.cfg
        self.captured.append(data)
        r = rb.parse_message(data, strict=False)
        clock = self.clocks[min(self.n, len(self.clocks) - 1)]
        self.n += 1
        if self.lose_first and len(self.captured) == 1:
            self.sent_clock.append(None)
            return []
        self.sent_clock.append(clock)
        if not r.engine_id:
            anon = Cfg("v3", user="", engine_id=cfg.engine_id)
            vb = [((1, 3, 6, 1, 6, 3, 15, 1, 1, 4, 0), values.v_unsigned("counter32", 1).tlv)]
            extra = {"ctx_engine_id": b"\x80\x00\x1f\x88\x04context"} if self.ctx_other else {}
            return [drivers.reply_for(anon, _bare(r), vb, pdu_tag=rb.PDU_REPORT, engine_id=cfg.engine_id, boots=clock[0], time=clock[1], flags=0, user="", **extra)]
        try:
            req = drivers.open_request(cfg, data, strict=False, check_mac=False)
        except (rb.StrictError, drivers.V3Error, ValueError):
            self.sent_clock[-1] = None
            return []  # undecipherable: a real agent would drop it; the oracle reports why
        if req.pdu_tag == rb.PDU_GET and not req.oids:
            vb = [((1, 3, 6, 1, 6, 3, 15, 1, 1, 2, 0), values.v_unsigned("counter32", 2).tlv)]
            return [drivers.reply_for(cfg, req, vb, pdu_tag=rb.PDU_REPORT, boots=clock[0], time=clock[1], flags=1 if cfg.auth else 0)]
        if req.pdu_tag in (rb.PDU_GETNEXT, rb.PDU_GETBULK):
            return [drivers.reply_for(cfg, req, [((1, 3, 7), rb.enc_int(1))], boots=clock[0], time=clock[1])]
        return [drivers.reply_for(cfg, req, [(o, rb.enc_int(7)) for o in req.oids], boots=clock[0], time=clock[1])]


def _bare(r):
    if r.request_id is None:
        r.request_id = 0
    return r


CLOCKS = [
    [(1, 100), (1, 101), (1, 150), (1, 151), (1, 152), (1, 153)],
    [(5, 1004), (5, 1004), (6, 3), (6, 4), (6, 4), (7, 0)],  # agent reboots: time goes backwards
    [(0, 0), (0x7FFFFFFF, 0x7FFFFFFF), (0, 1), (128, 32768), (127, 127), (0, 0)],
]
SCRIPTS = [["get", "get"], ["get_many", "refresh", "get"], ["getbulk", "get"], ["refresh", "refresh", "get"]]
SYS = (1, 3, 6, 1, 2, 1, 1, 5, 0)


def expected_calls(script):
    out = []
    for op in script:
        if op == "get":
            out.append(Call("get", [SYS]))
        elif op == "get_many":
            out.append(Call("get_many", [SYS, (1, 3, 6, 1, 2, 1, 1, 6, 0)]))
        elif op in ("getbulk", "pre_iter"):
            out.append(Call("getbulk", [(1, 3, 6, 1, 2, 1, 2)], max_rep=4))
    return out


def run_public(case, clauses=None):
    cfg = Cfg.from_desc(case["cfg"])
    agent = UsmAgent(cfg, CLOCKS[case["clock"]], lose_first=case.get("lose_first", False), ctx_other=case.get("ctx_other", False))
    script = case["script"]
    problems = []
    tmo = 1.0 if case.get("lose_first") else 4.0
    extra = {"engine_id": b""} if case.get("empty_eid_arg") else {}  # discovery asked for with an explicit empty engine id
    if case["driver"] == "sync":
        w = drivers.SyncWorld(cfg, agent, timeout=tmo, max_repetitions=4, **extra)
        try:
            s = w.session
            pre = s.getbulk("1.3.6.1.2.1.2") if "pre_iter" in script else None  # an iterator prepared before the session is entered
            o = drivers.call(s.__enter__)
            if case.get("lose_first"):
                if not (o.kind == "exc" and isinstance(o.exc, (TimeoutError, BlockingIOError))):
                    problems.append(("usm", "lost probe reply: expected a time-out from session entry, got %r" % (o.brief(),)))
                o = drivers.call(s.__enter__)
            if o.kind != "ok":
                problems.append(("usm", "session entry failed: %r" % (o.brief(),)))
            for op in script:
                if op == "get":
                    o = drivers.call(s.get, rb.oid_str(SYS))
                elif op == "get_many":
                    o = drivers.call(s.get_many, [rb.oid_str(SYS), "1.3.6.1.2.1.1.6.0"])
                elif op == "getbulk":
                    o = drivers.call(lambda: list(s.getbulk("1.3.6.1.2.1.2")))
                elif op == "pre_iter":
                    o = drivers.call(lambda: list(pre))
                else:
                    o = drivers.call(s.refresh)
                if o.kind != "ok":
                    problems.append(("usm", "%s failed: %r" % (op, o.brief())))
            got_eid = drivers.call(s.get_engine_id)
            errs = w.errors
        finally:
            w.close()
    else:
        holder = {}

        async def client(s):
            pre = s.getbulk("1.3.6.1.2.1.2") if "pre_iter" in script else None
            try:
                await s.__aenter__()
            except (TimeoutError, BlockingIOError):
                if not case.get("lose_first"):
                    raise
                await s.__aenter__()
            for op in script:
                if op == "get":
                    await s.get(rb.oid_str(SYS))
                elif op == "get_many":
                    await s.get_many([rb.oid_str(SYS), "1.3.6.1.2.1.1.6.0"])
                elif op == "getbulk":
                    [x async for x in s.getbulk("1.3.6.1.2.1.2")]
                elif op == "pre_iter":
                    [x async for x in pre]
                else:
                    await s.refresh()
            holder["eid"] = s.get_engine_id()

        o, reqs, errs = drivers.run_async(cfg, agent, client, timeout=tmo, max_repetitions=4, **extra)
        if o.kind != "ok":
            problems.append(("usm", "async script failed: %r" % (o.brief(),)))
        got_eid = drivers.Outcome("ok", holder.get("eid"))
    if errs:
        raise drivers.MachineryError("agent error %s" % errs[:2])
    if got_eid.kind != "ok" or got_eid.value != cfg.engine_id:
        problems.append(("usm", "get_engine_id() = %r, agent is %s" % (got_eid.brief(), cfg.engine_id.hex())))
    problems += judge_captured(cfg, agent, script, case["driver"], clauses or CLAUSES)
    return problems, len(agent.captured)


def judge_captured(cfg, agent, script, driver, clauses=None):
    clauses = clauses or CLAUSES
    """Judge the request sequence one agent captured from one session against the reference USM session model."""
    case = {"driver": driver}
    problems = []
    model = SessionModel(cfg)
    anon = Cfg("v3", user="", engine_id=cfg.engine_id)
    calls = expected_calls(script)
    keyed_seen = False
    for i, data in enumerate(agent.captured):
        r = rb.parse_message(data, strict=False)
        if cfg.discover and not model.engine_id:
            model.no_keys_yet = True
            model.user = b""
            req, probs = check_request(anon, Call("refresh", []), data, model, clauses)
            problems += [(c, t + " [discovery probe via %s client]" % case["driver"]) for c, t in probs]
        else:
            model.no_keys_yet = False
            if hasattr(model, "user"):
                del model.user
            try:
                req0 = drivers.open_request(cfg, data, strict=False, check_mac=False)
                is_probe = req0.pdu_tag == rb.PDU_GET and not req0.oids
            except (rb.StrictError, drivers.V3Error, ValueError):
                is_probe = False
            call = Call("refresh", []) if is_probe else (calls.pop(0) if calls else None)
            if call is None:
                problems.append(("usm", "unexpected extra request #%d" % i))
                continue
            req, probs = check_request(cfg, call, data, model, clauses)
            problems += [(c, t + " [request %d (%s) via %s client, %s]" % (i, call.op, case["driver"], cfg.name)) for c, t in probs]
        clk = agent.sent_clock[i] if i < len(agent.sent_clock) else None
        if clk is not None:
            model.accept(cfg.engine_id, clk[0], clk[1])
    if calls:
        problems.append(("usm", "%d API request(s) never reached the agent" % len(calls)))
    return problems


def run_shared(case, clauses=None):
    """One User object handed to several sessions (one after another) towards agents with different engine ids."""
    base = Cfg.from_desc(case["cfg"])
    eids = [bytes([0x80, 0, 0x1F, 0x88, 4]) + b"agent-%d" % i for i in range(2)]
    user = base.make_user()
    problems = []
    total = 0
    for turn, which in enumerate(case["order"]):
        d = dict(case["cfg"])
        d["engine_id"] = eids[which].hex()
        cfg = Cfg.from_desc(d)
        agent = UsmAgent(cfg, CLOCKS[0])
        script = case["script"]
        if case["driver"] == "sync":
            w = drivers.SyncWorld(cfg, agent, timeout=4.0, max_repetitions=4, user=user)
            try:
                s = w.session
                o = drivers.call(s.__enter__)
                if o.kind != "ok":
                    problems.append(("usm", "session entry failed: %r" % (o.brief(),)))
                for op in script:
                    o = drivers.call(s.get, rb.oid_str(SYS)) if op == "get" else drivers.call(s.refresh)
                    if o.kind != "ok":
                        problems.append(("usm", "%s failed on turn %d: %r" % (op, turn, o.brief())))
                errs = w.errors
            finally:
                w.close()
        else:

            async def client(s):
                await s.__aenter__()
                for op in script:
                    if op == "get":
                        await s.get(rb.oid_str(SYS))
                    else:
                        await s.refresh()

            o, reqs, errs = drivers.run_async(cfg, agent, client, timeout=4.0, max_repetitions=4, user=user)
            if o.kind != "ok":
                problems.append(("usm", "async script failed on turn %d: %r" % (turn, o.brief())))
        if errs:
            raise drivers.MachineryError("agent error %s" % errs[:2])
        problems += [(c, t + " [turn %d, agent %d, shared User]" % (turn, which)) for c, t in judge_captured(cfg, agent, script, case["driver"], clauses or CLAUSES)]
        total += len(agent.captured)
    return problems, total


def work_public(chunk):
    res = common.Result()
    for case in chunk:
        probs, n = run_shared(case) if "order" in case else run_public(case)
        res.count("cases")
        res.count("datagrams", n)
        res.count("api_calls", len(case["script"]) + 1)
        res.distinct()
        res.outcome("public-" + case["driver"])
        for c, t in probs:
            res.violation("public/%s/%s: %s" % (case["driver"], c, histcheck.classify(t)), t, case)
        if len(res["samples"]) < 1:
            res.sample({"public": case["driver"], "cfg": Cfg.from_desc(case["cfg"]).name, "script": case["script"], "clock": CLOCKS[case.get("clock", 0)], "requests_seen": n})
    return res


def gen_public(tier):
    thorough = tier == "thorough"
    kts = [(0, 0), (1, 1), (2, 2), (0, 1), (1, 2), (2, 0)] if thorough else [(0, 0), (0, 1), (2, 2)]
    for driver in ("sync", "async"):
        for (a, p), (kt, pkt), disc in itertools.product(((0, 0), (1, 0), (2, 0), (1, 1), (1, 2), (2, 1), (2, 2)), kts, (False, True)):
            if (not p and kt != pkt) or (not a and (kt, pkt) != (0, 0)):
                continue
            if disc and 2 in (kt, pkt) and False:
                continue
            for el in (5, 32) if thorough else (12,):
                cfg = Cfg("v3", auth=a, priv=p, key_type=kt, priv_key_type=pkt, discover=disc, engine_id=bytes(range(0x80, 0x80 + el)))
                for ci, si in itertools.product(range(len(CLOCKS)), range(len(SCRIPTS))):
                    if not thorough and (ci + si) % 2 and (kt, pkt) != (0, 0):
                        continue
                    yield {"driver": driver, "cfg": cfg.describe(), "clock": ci, "script": SCRIPTS[si]}
        for a, p in ((1, 0), (2, 2)):
            cfg = Cfg("v3", auth=a, priv=p, discover=True)
            yield {"driver": driver, "cfg": cfg.describe(), "clock": 1, "script": ["get", "get"], "lose_first": True}
            yield {"driver": driver, "cfg": cfg.describe(), "clock": 0, "script": ["get", "refresh", "get"], "ctx_other": True}
            yield {"driver": driver, "cfg": cfg.describe(), "clock": 0, "script": ["get", "pre_iter", "get"]}
            yield {"driver": driver, "cfg": Cfg("v3", auth=a, priv=p).describe(), "clock": 0, "script": ["pre_iter", "get"]}
            for kt in (0, 1):
                c2 = Cfg("v3", auth=a, priv=p, discover=True, key_type=kt)
                yield {"driver": driver, "cfg": c2.describe(), "clock": 0, "script": ["get", "get_many", "get"], "empty_eid_arg": True}
        # one User object shared by sessions to agents with different engine ids
        for (a, p), (kt, pkt) in itertools.product(((2, 0), (1, 1), (2, 2)), ((0, 0), (1, 1), (0, 1), (1, 0))):
            if not p and kt != pkt:
                continue
            for disc in (True, False):
                cfg = Cfg("v3", auth=a, priv=p, key_type=kt, priv_key_type=pkt, discover=disc)
                for order in ([0, 1, 0], [1, 1, 0]) if thorough else ([0, 1, 0],):
                    yield {"driver": driver, "cfg": cfg.describe(), "order": order, "script": ["get", "refresh", "get"]}


def replay(case):
    common.prepare_stage()
    if "history" in case:
        return histcheck.replay(case, CLAUSES)
    probs, n = run_shared(case) if "order" in case else run_public(case)
    return {"problems": probs, "requests": n}


def run(tier):
    common.prepare_stage()
    rec = common.Recorder(PROPERTY, tier, LEVEL, MODULE)
    rec.rule = (
        "(a) raw sockets: all step sequences to depth %d over {get, get_many, getbulk, refresh, replies with 5 clock values (forwards, backwards, 2^31-1, 0), Report, foreign engine id "
        "(response / Report), wrong user / msgID / request-id, time-out} for K7 x {engine id given, discovered}; discovery variants (clean, stray Report first, lost probe, Report whose contextEngineID differs from the authoritative engine id) x 9 key-type pairs x "
        "engine-id lengths; (b) sync and async public clients: context-manager entry + scripts x 3 agent clock sequences (incl. reboot) x K7 x key types x {given, discovered}, lost first probe; one User object shared by consecutive sessions to agents with different engine ids. "
        "evaluations = requests judged against the reference USM session model." % (4 if tier == "thorough" else 3)
    )
    rec.assume(
        "reference session model: engine id fixed by the first accepted message; boots/time = those of the most recent accepted message; keys localized to the learned engine id",
        "a localized key is configured for the agent's real engine id even when that id is then discovered (the public clients accept this combination)",
    )
    hist = list(gen_hist_cases(tier))
    common.run_cases(rec, work_hist, [c for c in hist if c.get("class") == "slow"], chunk=1)
    common.run_cases(rec, work_hist, [c for c in hist if c.get("class") != "slow"], chunk=80)
    common.run_cases(rec, work_public, list(gen_public(tier)), chunk=8)
    n = rec.counters["cases"]
    return rec.finish(evaluations=rec.counters["datagrams"], distinct_nontrivial=rec.distinct_n, states=n, transitions=rec.counters["api_calls"], traces=n)
