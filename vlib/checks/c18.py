"""C18 - a request never outlives its timeout.

All arrival schedules of a family (k stray but well-formed non-matching datagrams at spacings from
a small set, optionally followed by the matching reply before / after the deadline) are enumerated.
async: the real gufo.snmp.SnmpSession runs on a virtual-time event loop - exact and deterministic:
       the reply is delivered iff it arrives (virtually) before T, else TimeoutError at exactly T.
sync : the real blocking client on the real clock (not owned): T = 0.2 s, bound T + 0.5 T, every
       violating candidate re-run three times and reported only if it violates every time.
"""

import itertools
import threading
import time

from .. import common, drivers, refber as rb, vloop
from ..drivers import Cfg

PROPERTY = "C18"
LEVEL = "fault_enumeration"
MODULE = __name__

SYS = (1, 3, 6, 1, 2, 1, 1, 5, 0)
T_ASYNC = 10.0
T_SYNC = 0.2
SLACK = 0.5  # x T


def stray_for(cfg, req, i, size=0):
    """Well-formed message of the session's version that does not match the outstanding request
    (size > 0: carrying an OCTET STRING of that many octets - larger than the client's receive buffer for 4200;
    size == -1: a well-formed message of the *other* community-based version with the right community and request-id)."""
    if size == -2:
        return b""  # an empty datagram
    if size == -1:
        pdu = rb.build_pdu(rb.PDU_RESPONSE, req.request_id, 0, 0, [(SYS, rb.enc_int(1000 + i))])
        return rb.build_community_msg(1 - req.version, req.community, pdu)
    val = rb.enc_octets(b"S" * size) if size else rb.enc_int(1000 + i)
    # non-matching request-ids: neighbours of the outstanding id, and (every third stray) the same low 32 bits with higher bits set
    rid = (req.request_id + 1 + i) & 0x7FFFFFFF if i % 3 != 1 else req.request_id + ((i + 1) << 32)
    return drivers.reply_for(cfg, req, [(SYS, val)], request_id=rid)


def reply_for(cfg, req):
    return drivers.reply_for(cfg, req, [(SYS, rb.enc_int(42))])


# ------------------------------------------------------------------ async, virtual time


def run_async_schedule(cfg, strays, reply_at, op="get"):
    """strays: list of virtual times; reply_at: virtual time or None. Returns (outcome, t_end)."""
    drivers.subject()
    from gufo.snmp import SnmpSession

    agent = drivers.new_agent_socket(blocking=False)
    port = agent.getsockname()[1]
    state = {"req": None, "addr": None, "n": 0}

    def learn():
        while True:
            try:
                data, addr = agent.recvfrom(65535)
            except BlockingIOError:
                return
            state["req"] = drivers.open_request(cfg, data, strict=False, check_mac=False)
            state["addr"] = addr

    def mk_stray(i):
        def fn():
            learn()
            if state["req"] is not None:
                agent.sendto(stray_for(cfg, state["req"], i), state["addr"])

        return fn

    def mk_reply():
        def fn():
            learn()
            if state["req"] is not None:
                agent.sendto(reply_for(cfg, state["req"]), state["addr"])

        return fn

    events = [(t, mk_stray(i)) for i, t in enumerate(strays)]
    if reply_at is not None:
        events.append((reply_at, mk_reply()))
    env = vloop.ScriptEnv(events)
    loop = vloop.VirtualLoop(env)
    result = {}

    async def main():
        kw = drivers.session_kwargs(cfg, port, T_ASYNC)
        s = SnmpSession(**kw)
        t0 = loop.time()
        try:
            if op == "get":
                v = await s.get(rb.oid_str(SYS))
            elif op == "get_many":
                v = await s.get_many([rb.oid_str(SYS)])
            else:
                v = None
                async for x in s.getnext("1.3.6.1.2.1.1"):
                    v = x
                    break
            result["out"] = drivers.Outcome("ok", v)
        except BaseException as e:  # noqa: BLE001
            if isinstance(e, (KeyboardInterrupt, SystemExit, MemoryError)):
                raise
            result["out"] = drivers.Outcome("exc", exc=e)
        result["t"] = loop.time() - t0

    try:
        loop.run_until_complete(main())
    except vloop.Deadlock as e:
        result["out"] = drivers.Outcome("exc", exc=RuntimeError("never returns: %s" % e))
        result["t"] = float("inf")
    finally:
        loop.close()
        agent.close()
    return result["out"], result["t"]


def judge_async(strays, reply_at, out, t_end):
    in_time = reply_at is not None and reply_at < T_ASYNC
    if in_time:
        ok = out.kind == "ok"
        if not ok:
            return "reply arrived at virtual t=%.3f < T=%.0f but the call ended with %r at t=%.3f" % (reply_at, T_ASYNC, out.brief(), t_end)
        if abs(t_end - reply_at) > 1e-6:
            return "reply arrived at t=%.3f but the call returned at t=%.3f" % (reply_at, t_end)
        return None
    if not (out.kind == "exc" and isinstance(out.exc, TimeoutError)):
        return "no matching reply before T but the call ended with %r at virtual t=%.3f" % (out.brief(), t_end)
    if abs(t_end - T_ASYNC) > 1e-6:
        return "TimeoutError raised at virtual t=%.3f, the timeout is %.0f" % (t_end, T_ASYNC)
    return None


def schedules_async(thorough):
    sp = [0.0, 0.5, 0.8, 0.999]
    out = []
    for k in (0, 1, 2, 3):
        for spc in itertools.product(sp, repeat=k):
            times = []
            acc = 0.0
            for s in spc:
                acc += s * T_ASYNC
                times.append(acc if acc > 0 else 1e-3)
            out.append(times)
    for k in (5, 8) if thorough else (5,):
        for s in (0.1, 0.3, 0.8, 0.999):
            out.append([s * T_ASYNC * (i + 1) for i in range(k)])
    res = []
    for times in out:
        replies = [None, 1e-4, 0.25 * T_ASYNC, 0.999 * T_ASYNC, 1.001 * T_ASYNC, 1.7 * T_ASYNC]
        for a, b in zip(times, times[1:]):
            if b > a:
                replies.append((a + b) / 2)
        if times:
            replies.append(times[-1] + 0.01)
        for r in sorted({round(x, 6) for x in replies if x is not None and abs(x - T_ASYNC) > 1e-3}) + [None]:
            res.append((times, r))
    return res


def work_async(chunk):
    res = common.Result()
    for case in chunk:
        cfg = Cfg.from_desc(case["cfg"])
        out, t_end = run_async_schedule(cfg, case["strays"], case["reply_at"], case.get("op", "get"))
        res.count("schedules")
        res.count("async_schedules")
        res.distinct()
        res.outcome("async:" + ("value" if out.kind == "ok" else out.exc_name))
        prob = judge_async(case["strays"], case["reply_at"], out, t_end)
        if prob:
            res.violation(
                "async/%s/k=%d/reply=%s" % (cfg.version, len(case["strays"]), _rclass(case["reply_at"], T_ASYNC)),
                "strays at %s, reply at %s: %s" % (case["strays"], case["reply_at"], prob),
                case,
            )
        elif len(res["samples"]) < 1 and len(case["strays"]) == 2:
            res.sample({"driver": "async", "virtual_T": T_ASYNC, "strays": case["strays"], "reply_at": case["reply_at"], "outcome": out.brief()[:2], "t_end": t_end})
    return res


def _rclass(r, T):
    if r is None:
        return "never"
    return "before-T" if r < T else "after-T"


# ------------------------------------------------------------------ sync, real time


def run_sync_schedule(cfg, strays, reply_at, op="get", T=None, size=0):
    """Times in seconds after the request was seen. Returns (outcome, elapsed)."""
    drivers.subject()
    from gufo.snmp.sync_client import SnmpSession

    agent = drivers.new_agent_socket(blocking=True)
    agent.settimeout(2.0 + (T or 0))
    port = agent.getsockname()[1]
    done = threading.Event()

    def serve():
        try:
            data, addr = agent.recvfrom(65535)
        except OSError:
            return
        t0 = time.monotonic()
        req = drivers.open_request(cfg, data, strict=False, check_mac=False)
        if strays and strays[0] == "flood":
            # non-matching datagrams back to back from strays[1] to strays[2] (the client is busy skipping when T passes)
            dgs = [stray_for(cfg, req, i, size) for i in range(8)]
            delay = t0 + strays[1] - time.monotonic()
            if delay > 0 and done.wait(delay):
                return
            i = 0
            while time.monotonic() < t0 + strays[2] and not done.is_set():
                try:
                    agent.sendto(dgs[i % 8], addr)
                except OSError:
                    return
                i += 1
            return
        plan = [(t, stray_for(cfg, req, i, size)) for i, t in enumerate(strays)]
        if reply_at is not None:
            plan.append((reply_at, reply_for(cfg, req)))
        for t, dg in sorted(plan, key=lambda x: x[0]):
            delay = t0 + t - time.monotonic()
            if delay > 0:
                if done.wait(delay):
                    return
            try:
                agent.sendto(dg, addr)
            except OSError:
                return

    th = threading.Thread(target=serve, daemon=True)
    th.start()
    kw = drivers.session_kwargs(cfg, port, T or T_SYNC)
    s = SnmpSession(**kw)
    t0 = time.monotonic()
    if op == "get":
        out = drivers.call(s.get, rb.oid_str(SYS))
    else:
        out = drivers.call(lambda: next(iter(s.getnext("1.3.6.1.2.1.1"))))
    el = time.monotonic() - t0
    done.set()
    th.join(1.0)
    agent.close()
    return out, el


def run_sync_sequence(cfg, calls, op="get"):
    """Several calls on ONE sync session; calls = [(strays, reply_at), ...]. Returns [(outcome, elapsed)]."""
    drivers.subject()
    from gufo.snmp.sync_client import SnmpSession

    agent = drivers.new_agent_socket(blocking=True)
    agent.settimeout(3.0)
    port = agent.getsockname()[1]
    done = threading.Event()

    def serve():
        for strays, reply_at in calls:
            try:
                data, addr = agent.recvfrom(65535)
            except OSError:
                return
            t0 = time.monotonic()
            try:
                req = drivers.open_request(cfg, data, strict=False, check_mac=False)
            except Exception:  # noqa: BLE001
                continue
            if req.request_id is None:
                continue
            if op == "enter":
                # session entry probes: a silent agent
                continue
            plan = [(t, stray_for(cfg, req, i)) for i, t in enumerate(strays)]
            if reply_at is not None:
                plan.append((reply_at, reply_for(cfg, req)))
            for t, dg in sorted(plan, key=lambda x: x[0]):
                delay = t0 + t - time.monotonic()
                if delay > 0 and done.wait(delay):
                    return
                try:
                    agent.sendto(dg, addr)
                except OSError:
                    return

    th = threading.Thread(target=serve, daemon=True)
    th.start()
    kw = drivers.session_kwargs(cfg, port, T_SYNC)
    s = SnmpSession(**kw)
    out = []
    for _ in calls:
        t0 = time.monotonic()
        if op == "enter":
            o = drivers.call(s.__enter__)
        else:
            o = drivers.call(s.get, rb.oid_str(SYS))
        out.append((o, time.monotonic() - t0))
        time.sleep(0.02)
    done.set()
    th.join(1.0)
    agent.close()
    return out


def judge_sync(strays, reply_at, out, el, T_SYNC=T_SYNC, oversize=False):
    bound = T_SYNC * (1 + SLACK)
    if el > bound:
        return "overrun", "call took %.3f s, timeout is %.2f s (bound %.2f s)" % (el, T_SYNC, bound)
    if oversize:
        # a datagram cut off by the receive buffer does not decode: ending the call with SnmpDecodeError is documented
        # (C04); only the time bound is judged
        return None
    if reply_at is not None and reply_at <= T_SYNC - min(0.1 * T_SYNC, 0.1):
        if out.kind != "ok":
            return "reply-lost", "matching reply sent at %.3f s (< T) but the call ended with %r after %.3f s" % (reply_at, out.brief(), el)
    elif reply_at is None or reply_at >= 1.5 * T_SYNC:
        if not (out.kind == "exc" and isinstance(out.exc, TimeoutError)):
            return "no-timeout", "no reply within T but the call ended with %r after %.3f s" % (out.brief(), el)
        if el < T_SYNC - min(0.1 * T_SYNC, 0.03):
            return "early-timeout", "TimeoutError after %.3f s, timeout is %.2f s" % (el, T_SYNC)
    return None


def schedules_sync(thorough):
    res = []
    for k in (0, 1, 2, 3):
        strays = [0.8 * T_SYNC * (i + 1) for i in range(k)]
        for r in (0.5 * T_SYNC, 0.9 * T_SYNC, 1.7 * T_SYNC, None):
            res.append((strays, r))
    # bursts of strays ahead of an early reply (a bounded skip loop must not give up)
    for k in (4, 5, 8) if thorough else (5,):
        strays = [0.02 * T_SYNC * (i + 1) for i in range(k)]
        res.append((strays, 0.5 * T_SYNC))
        res.append((strays, None))
    # a flood of non-matching datagrams across the deadline
    res.append((["flood", 0.5 * T_SYNC, 1.3 * T_SYNC], None))
    if thorough:
        res.append((["flood", 0.0, 1.2 * T_SYNC], None))
        for k in (1, 2):
            for sp in (0.5, 0.95):
                strays = [sp * T_SYNC * (i + 1) for i in range(k)]
                for r in (0.3 * T_SYNC, None):
                    res.append((strays, r))
    return res


def work_sync(chunk):
    res = common.Result()
    for case in chunk:
        cfg = Cfg.from_desc(case["cfg"])
        T = case.get("T") or T_SYNC
        size = case.get("size", 0)
        out, el = run_sync_schedule(cfg, case["strays"], case["reply_at"], case.get("op", "get"), T, size)
        res.count("schedules")
        res.count("sync_schedules")
        res.distinct()
        res.outcome("sync:" + ("value" if out.kind == "ok" else out.exc_name))
        v = judge_sync(case["strays"], case["reply_at"], out, el, T, bool(size))
        if v:
            # re-run three times: every class must reproduce each time, except an overrun under a *flood* - whether a flood
            # leaves no gap of a millisecond depends on the scheduler, so two reproductions out of three are enough there
            same = 0
            for _ in range(3):
                out2, el2 = run_sync_schedule(cfg, case["strays"], case["reply_at"], case.get("op", "get"), T, size)
                v2 = judge_sync(case["strays"], case["reply_at"], out2, el2, T, bool(size))
                if v2 and v2[0] == v[0]:
                    same += 1
            flood = bool(case["strays"]) and case["strays"][0] == "flood"
            confirmed = same == 3 or (flood and v[0] == "overrun" and same >= 2)
            if confirmed:
                k = len(case["strays"])
                spacing = ("burst" if k < 50 else "many") if k and case["strays"][0] != "flood" and case["strays"][0] < 0.1 * T_SYNC else ("flood" if k and case["strays"][0] == "flood" else "spaced")
                res.violation(
                    "sync/%s/%s/strays=%s%s/reply=%s%s" % (cfg.version, v[0], ("%d-%s" % (k, spacing)) if k else "0", ("-oversize" if size > 0 else ("-other-version" if size == -1 else "-empty")) if size else "", _rclass(case["reply_at"], T), "/T=%.1f" % T if T != T_SYNC else ""),
                    "strays at %s s, reply at %s s: %s (confirmed on 3 re-runs)" % ([x if isinstance(x, str) else round(x, 3) for x in case["strays"]], case["reply_at"], v[1]),
                    case,
                )
            else:
                res.count("sync_unconfirmed")
        elif len(res["samples"]) < 1 and len(case["strays"]) == 0:
            res.sample({"driver": "sync", "T": T_SYNC, "strays": case["strays"], "reply_at": case["reply_at"], "outcome": out.brief()[:2], "elapsed": round(el, 3)})
    return res


def work_sync_seq(chunk):
    res = common.Result()
    for case in chunk:
        cfg = Cfg.from_desc(case["cfg"])
        calls = [(c[0], c[1]) for c in case["calls"]]
        op = case.get("op", "get")

        def problems():
            outs = run_sync_sequence(cfg, calls, op)
            ps = []
            for i, ((strays, reply_at), (o, el)) in enumerate(zip(calls, outs)):
                v = judge_sync(strays, reply_at, o, el)
                if v:
                    ps.append((i, v))
            return ps, outs

        ps, outs = problems()
        res.count("schedules")
        res.count("sync_sequences")
        res.distinct()
        res.outcome("sync-seq:" + "+".join("value" if o.kind == "ok" else o.exc_name for o, _ in outs))
        if ps:
            confirmed = all(bool(problems()[0]) and problems()[0][0][1][0] == ps[0][1][0] for _ in range(2))
            if confirmed:
                i, v = ps[0]
                res.violation(
                    "sync-sequence/%s/%s/call-%d/%s" % (cfg.version, op, i + 1, v[0]),
                    "calls %s on one session (%s): call %d: %s (confirmed on re-runs)" % (calls, op, i + 1, v[1]),
                    case,
                )
            else:
                res.count("sync_unconfirmed")
        elif len(res["samples"]) < 1:
            res.sample({"driver": "sync-sequence", "calls": calls, "outcomes": [(o.brief()[:2], round(el, 3)) for o, el in outs]})
    return res


def run_sync_concurrent(cfg, n_first, late_at):
    """n_first sync sessions (one thread each) call get() against a silent agent at t = 0, one more at t = late_at * T.
    Returns the elapsed time and outcome of every call. A call's time-out is its own: it does not wait for other sessions."""
    drivers.subject()
    from gufo.snmp.sync_client import SnmpSession

    agent = drivers.new_agent_socket(blocking=True)  # never read, never answers
    port = agent.getsockname()[1]
    sessions = [SnmpSession(**drivers.session_kwargs(cfg, port, T_SYNC)) for _ in range(n_first + 1)]
    results = [None] * (n_first + 1)
    go = threading.Event()

    def one(i, delay):
        go.wait()
        if delay:
            time.sleep(delay)
        t0 = time.monotonic()
        o = drivers.call(sessions[i].get, rb.oid_str(SYS))
        results[i] = (o, time.monotonic() - t0)

    ths = [threading.Thread(target=one, args=(i, 0.0 if i < n_first else late_at * T_SYNC), daemon=True) for i in range(n_first + 1)]
    for t in ths:
        t.start()
    go.set()
    for t in ths:
        t.join(T_SYNC * 12)
    agent.close()
    return results


def work_sync_concurrent(chunk):
    res = common.Result()
    for case in chunk:
        cfg = Cfg.from_desc(case["cfg"])

        def problem():
            outs = run_sync_concurrent(cfg, case["n"], case["late_at"])
            for i, r in enumerate(outs):
                if r is None:
                    return "fails-to-return", "session %d of %d did not return within 12 T" % (i + 1, len(outs))
                v = judge_sync([], None, r[0], r[1])
                if v:
                    return v[0], "session %d of %d (started at %s): %s" % (i + 1, len(outs), "0" if i < case["n"] else "%.1f T" % case["late_at"], v[1])
            return None

        v = problem()
        res.count("schedules")
        res.count("sync_concurrent")
        res.distinct()
        res.outcome("sync-concurrent")
        if v:
            again = [problem() for _ in range(2)]
            if all(a and a[0] == v[0] for a in again):
                res.violation("sync-concurrent/%s/n=%d/%s" % (cfg.version, case["n"], v[0]), "%d sessions waiting on a silent agent, one more starting at %.1f T: %s (confirmed on re-runs)" % (case["n"], case["late_at"], v[1]), case)
            else:
                res.count("sync_unconfirmed")
    return res


def run_async_reuse(cfg, drops):
    """Real asyncio loop: session A times out (`drops` requests unanswered) and is dropped; a new session B in the same
    loop (it will usually get A's descriptor number) must have its reply delivered."""
    import asyncio
    import gc

    drivers.subject()
    from gufo.snmp import SnmpSession

    agent = drivers.new_agent_socket(blocking=False)
    port = agent.getsockname()[1]
    seen = {"n": 0}

    def on_readable():
        while True:
            try:
                data, addr = agent.recvfrom(65535)
            except BlockingIOError:
                return
            seen["n"] += 1
            if seen["n"] <= drops:
                continue
            req = drivers.open_request(cfg, data, strict=False, check_mac=False)
            agent.sendto(reply_for(cfg, req), addr)

    async def main():
        loop = asyncio.get_running_loop()
        loop.add_reader(agent.fileno(), on_readable)
        try:
            a = SnmpSession(**drivers.session_kwargs(cfg, port, 0.15))
            first = []
            for _ in range(drops):
                try:
                    await a.get(rb.oid_str(SYS))
                    first.append("value")
                except TimeoutError:
                    first.append("timeout")
            del a
            gc.collect()
            b = SnmpSession(**drivers.session_kwargs(cfg, port, 1.0))
            t0 = loop.time()
            try:
                v = await b.get(rb.oid_str(SYS))
                return first, ("value", v), loop.time() - t0
            except BaseException as e:  # noqa: BLE001
                if isinstance(e, (KeyboardInterrupt, SystemExit, MemoryError)):
                    raise
                return first, ("exc", type(e).__name__), loop.time() - t0
        finally:
            loop.remove_reader(agent.fileno())

    loop = asyncio.new_event_loop()
    try:
        return loop.run_until_complete(main())
    finally:
        loop.close()
        agent.close()


def work_async_reuse(chunk):
    res = common.Result()
    for case in chunk:
        cfg = Cfg.from_desc(case["cfg"])
        first, second, el = run_async_reuse(cfg, case["drops"])
        res.count("schedules")
        res.distinct()
        res.outcome("async-reuse:" + second[0])
        if second != ("value", 42):
            # confirm
            again = [run_async_reuse(cfg, case["drops"])[1] for _ in range(2)]
            if all(x != ("value", 42) for x in again):
                res.violation(
                    "async/%s/new-session-after-a-timed-out-one/reply-lost" % cfg.version,
                    "session A timed out %d time(s) and was dropped; session B in the same loop: reply sent at once but the call ended with %r after %.3f s" % (case["drops"], second, el),
                    {"driver": "async-reuse", "cfg": case["cfg"], "drops": case["drops"]},
                )
    return res


def work_no_blocking(chunk):
    from . import c19

    res = common.Result()
    for case in chunk:
        cfg = Cfg.from_desc(case["cfg"])
        pre = ["enter"] if cfg.version == "v3" else []
        ev = c19.session_events("async", cfg, pre + ["get", "getnext", "get_many"], mode="delay")
        res.count("schedules")
        res.distinct()
        res.outcome("async:no-blocking-sleep")
        if "B" in ev:
            res.violation("async/%s/blocking-sleep-in-event-loop" % cfg.version, "the async client took a rate-limit delay with the blocking sleep (events %r): every other session's time-out is frozen meanwhile" % ev, {"driver": "no-blocking", "cfg": case["cfg"]})
    return res


def replay(case):
    if case.get("engine") == "loomx":
        from .. import loomx as _lx

        return _lx.replay(case)
    if case.get("driver") == "sync-concurrent":
        common.prepare_stage()
        r = work_sync_concurrent([case])
        return {"problems": [v[1] for v in r["violations"]], "holds": not r["violations"]}
    if case.get("driver") == "async-reuse":
        common.prepare_stage()
        return {"result": repr(run_async_reuse(Cfg.from_desc(case["cfg"]), case["drops"]))}
    if case.get("driver") == "no-blocking":
        common.prepare_stage()
        from . import c19

        cfg = Cfg.from_desc(case["cfg"])
        return {"events": c19.session_events("async", cfg, (["enter"] if cfg.version == "v3" else []) + ["get", "getnext", "get_many"], mode="delay")}
    common.prepare_stage()
    cfg = Cfg.from_desc(case["cfg"])
    if "calls" in case:
        outs = run_sync_sequence(cfg, [(c[0], c[1]) for c in case["calls"]], case.get("op", "get"))
        return [{"outcome": o.brief(), "elapsed": el} for o, el in outs]
    if case["driver"] == "async":
        out, t = run_async_schedule(cfg, case["strays"], case["reply_at"], case.get("op", "get"))
        return {"outcome": out.brief(), "virtual_t_end": t, "problem": judge_async(case["strays"], case["reply_at"], out, t)}
    out, el = run_sync_schedule(cfg, case["strays"], case["reply_at"], case.get("op", "get"))
    return {"outcome": out.brief(), "elapsed": el, "problem": judge_sync(case["strays"], case["reply_at"], out, el)}


def run(tier):
    common.prepare_stage()
    thorough = tier == "thorough"
    rec = common.Recorder(PROPERTY, tier, LEVEL, MODULE)
    rec.rule = (
        "arrival schedules: k in {0,1,2,3} strays at every combination of spacings {0, T/2, 0.8T, 0.999T} (and k=5 uniform) x reply at {never, ~0, T/4, between strays, just after the last "
        "stray, 0.999T, 1.001T, 1.7T} x {v1,v2c,v3} on the async client in virtual time (exact); sync client on the real clock: k<=3 strays at 0.8T spacing and bursts of 5 at 0.02T x reply "
        "at {0.5T, 0.9T, 1.7T, never}, T=0.2 s, bound 1.5T; a flood of strays across the deadline; strays larger than the receive buffer and strays of the other SNMP version (time bound only); T = 1.3 s (t: 2.25 s) with strays early and late; T = 4.3 s (t: 8.6 s; beyond 2^32 ns) against a silent agent (TimeoutError not before T) and with a late reply; sequences of 2-3 calls on one session (a call that skipped strays and timed out, then a call whose reply arrives at T/2; a successful call "
        "after a stray, then silence) and v3 session entry against a silent agent (TimeoutError, in time). Every schedule is distinct."
    )
    rec.assume(
        "asyncio reads time only through loop.time() (virtual clock is sound for the async client)",
        "sync half: real clock, tolerance 0.5T, violations re-confirmed three times; it is fault enumeration with a tolerance, not a proof about wall-clock time",
    )
    cfgs = [Cfg("v1"), Cfg("v2c"), Cfg("v3"), Cfg("v3", auth=2, priv=2)]
    acases = []
    for cfg in cfgs:
        for strays, r in schedules_async(thorough):
            acases.append({"driver": "async", "cfg": cfg.describe(), "strays": strays, "reply_at": r})
    for op in ("get_many", "getnext"):
        for strays, r in schedules_async(False)[:: 7]:
            acases.append({"driver": "async", "cfg": Cfg("v2c").describe(), "strays": strays, "reply_at": r, "op": op})
    common.run_cases(rec, work_async, acases, chunk=40)
    scases = []
    for cfg in cfgs[:3] if not thorough else cfgs:
        for strays, r in schedules_sync(thorough):
            scases.append({"driver": "sync", "cfg": cfg.describe(), "strays": strays, "reply_at": r})
    for strays, r in schedules_sync(False)[::3]:
        scases.append({"driver": "sync", "cfg": Cfg("v2c").describe(), "strays": strays, "reply_at": r, "op": "getnext"})
    # non-matching datagrams larger than the receive buffer (spaced, and as a flood across the deadline)
    for cfg in cfgs[:3]:
        for strays, r in (([0.6 * T_SYNC, 1.2 * T_SYNC, 1.8 * T_SYNC, 2.4 * T_SYNC], None), ([0.3 * T_SYNC], 0.6 * T_SYNC), (["flood", 0.5 * T_SYNC, 1.3 * T_SYNC], None)):
            scases.append({"driver": "sync", "cfg": cfg.describe(), "strays": strays, "reply_at": r, "size": 4200})
    # well-formed messages of the other SNMP version (documented: SnmpDecodeError; judged by the time bound only)
    for cfg in cfgs[:2]:
        for strays, r in (([0.6 * T_SYNC, 1.2 * T_SYNC, 1.8 * T_SYNC, 2.4 * T_SYNC], None), (["flood", 0.5 * T_SYNC, 1.3 * T_SYNC], None)):
            scases.append({"driver": "sync", "cfg": cfg.describe(), "strays": strays, "reply_at": r, "size": -1})
    # empty datagrams (documented: SnmpDecodeError; judged by the time bound only)
    for cfg in cfgs[:2]:
        for strays, r in (([0.6 * T_SYNC, 1.2 * T_SYNC, 1.8 * T_SYNC, 2.4 * T_SYNC, 3.0 * T_SYNC], None), (["flood", 0.5 * T_SYNC, 1.3 * T_SYNC], None)):
            scases.append({"driver": "sync", "cfg": cfg.describe(), "strays": strays, "reply_at": r, "size": -2})
    # many strays before the reply (a cap on skipped datagrams must not end the wait); a flood that stops before the deadline
    for cfg in cfgs[:3]:
        scases.append({"driver": "sync", "cfg": cfg.describe(), "strays": [0.01 * T_SYNC + 0.0005 * i for i in range(150)], "reply_at": 0.6 * T_SYNC})
        scases.append({"driver": "sync", "cfg": cfg.describe(), "strays": ["flood", 0.0, 0.7 * T_SYNC], "reply_at": None})
        scases.append({"driver": "sync", "cfg": cfg.describe(), "strays": ["flood", 0.1 * T_SYNC, 0.8 * T_SYNC], "reply_at": None})
    # time-outs above 2^32 ns (the nanosecond count no longer fits 32 bits)
    # (a timer never fires early, so the silent agent is the sharp case; long waits overshoot by a few per cent on this host)
    for T_long in (4.3, 8.6) if thorough else (4.3,):
        scases.append({"driver": "sync", "cfg": Cfg("v2c").describe(), "strays": [], "reply_at": None, "T": T_long})
        scases.append({"driver": "sync", "cfg": Cfg("v2c").describe(), "strays": [0.5], "reply_at": T_long - 0.5, "T": T_long})
    # time-outs longer than a second (whole seconds and fraction must both count)
    for T_long in (1.3, 2.25) if thorough else (1.3,):
        for strays, r in (([0.1], 0.55 * T_long), ([0.1, 0.2], None), ([], 0.8 * T_long), ([0.85 * T_long], None)):
            scases.append({"driver": "sync", "cfg": Cfg("v2c").describe(), "strays": strays, "reply_at": r, "T": T_long})
    common.run_cases(rec, work_sync, scases, chunk=3, nproc=8)
    # several calls on one session: the time-out of one call must not leak into the next
    T = T_SYNC
    seqs = [
        [([0.8 * T], None), ([], 0.5 * T)],  # call 1 skips a stray and times out; call 2's reply at T/2 must be delivered
        [([0.3 * T], 0.6 * T), ([], None)],  # call 1 succeeds after a stray; call 2 must take the full time-out
        [([0.5 * T, 0.9 * T], None), ([0.5 * T], 0.8 * T), ([], 0.9 * T)],
        [([], None), ([], 0.9 * T)],
    ]
    qcases = []
    for cfg in cfgs[:3] if not thorough else cfgs:
        for sq in seqs:
            qcases.append({"driver": "sync-seq", "cfg": cfg.describe(), "calls": [[a, b] for a, b in sq]})
    # session entry (discovery / time-sync probes) against a silent agent must raise TimeoutError in time
    for c in (Cfg("v3", auth=1, discover=True), Cfg("v3", auth=2, priv=2, discover=True), Cfg("v3", auth=1)):
        qcases.append({"driver": "sync-seq", "cfg": c.describe(), "calls": [[[], None], [[], None]], "op": "enter"})
    common.run_cases(rec, work_sync_seq, qcases, chunk=2, nproc=8)
    # many sessions of one process waiting at the same time (threads): each call has its own time-out - buffers, locks or
    # counters shared by the sessions must not make one wait for another (the receive path holds a pooled buffer while it waits)
    ccases = [{"driver": "sync-concurrent", "cfg": c.describe(), "n": n, "late_at": 0.3} for c in (Cfg("v2c"), Cfg("v3", auth=1)) for n in ((1, 16, 40) if not thorough else (1, 2, 8, 16, 17, 40, 100))]
    common.run_cases(rec, work_sync_concurrent, ccases, chunk=1, nproc=2)
    # the same question put to the pool itself under loom: one thread keeps 24 handles (waiting receivers) while another acquires
    # and releases, every interleaving within the preemption bound - every acquire returns (no waiting for a release)
    from .. import loomx

    n_l = loomx.explore(rec, 2, 0, 3 if thorough else 2, hold=24)
    rec.extra["loom_pool_hold"] = {"handles_held": 24, "schedules": n_l}
    # nothing in the async client may block the event loop: while one session is being rate-limited, the timers of all
    # others must keep running (a blocking sleep is invisible to virtual time, so it is observed directly)
    common.run_cases(rec, work_no_blocking, [{"cfg": c.describe()} for c in (Cfg("v1"), Cfg("v2c"), Cfg("v3", auth=2, priv=2, discover=True))], chunk=1)
    # a timed-out session is dropped and a new one created in the same loop (descriptor numbers are reused)
    common.run_cases(rec, work_async_reuse, [{"cfg": c.describe(), "drops": d} for c in (Cfg("v2c"), Cfg("v3", auth=1)) for d in (1, 2)], chunk=1)
    n = rec.counters["schedules"]
    return rec.finish(evaluations=n, distinct_nontrivial=rec.distinct_n)
