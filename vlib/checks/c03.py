"""C03 - requests on the wire are exactly what the caller asked for.

All call/reply histories up to a depth on one or two sessions that share the process-wide
buffer pool (raw sockets), forced boundary request-ids through the RNG seam, and the
version -> PDU-type policy of the two public clients. Every datagram the agent receives is
strictly decoded by the reference codec and compared with the API call.
"""

import itertools

from .. import common, drivers, histories, loomx, refber as rb
from ..drivers import Cfg
from ..reqoracle import Call, SessionModel, check_request

PROPERTY = "C03"
LEVEL = "model_checking"
MODULE = __name__
CLAUSES = ("wire", "usm", "size")


def alphabet(cfg, s, tier):
    acts = [
        ["get", s, "sys"],
        ["get", s, "big"],
        ["get_many", s, "none"],
        ["get_many", s, "pair"],
        ["get_many", s, "forty"],
        ["getnext", s, "long"],
        ["getbulk", s, "sys", 1],
        ["getbulk", s, "big", 2147483647],
        ["getbulk", s, "two", 128],
        ["oversize", s],
        ["reply", s, "ok", 0],
        ["reply", s, "garbage"],
        ["timeout", s],
    ]
    if tier == "thorough":
        acts += [["get", s, "zero"], ["getnext", s, "sys"], ["getbulk", s, "sys", 20], ["getbulk", s, "sys", 127]]
    if cfg.version == "v3":
        acts += [["refresh", s], ["reply", s, "ok", 1], ["reply", s, "report", 2]]
        if tier == "thorough":
            acts += [["reply", s, "ok", 4]]
    return acts


def gen_histories(cfgs, depth, tier):
    acts = []
    for i, c in enumerate(cfgs):
        acts += alphabet(c, i, tier)
    for d in range(1, depth + 1):
        for h in itertools.product(acts, repeat=d):
            # canonical: replies / timeouts only when that session has something outstanding
            outstanding = [False] * len(cfgs)
            ok = True
            for a in h:
                if a[0] in ("reply", "timeout"):
                    if not outstanding[a[1]]:
                        ok = False
                        break
                    outstanding[a[1]] = False
                elif a[0] != "oversize":
                    outstanding[a[1]] = True
            # a history must end with an emitting action to add anything over its prefix
            if ok and h[-1][0] not in ("reply", "timeout", "oversize"):
                yield list(h)
            elif ok and d == depth and h[-1][0] == "oversize":
                yield list(h)


PAIRS_QUICK = [
    (Cfg("v2c"), Cfg("v3", auth=2, priv=1)),
    (Cfg("v1", community=""), Cfg("v3", auth=1, priv=2, user="u" * 32)),
    (Cfg("v3"), Cfg("v2c", community="c" * 128)),
]
PAIRS_THOROUGH = PAIRS_QUICK + [
    (Cfg("v3", auth=2, priv=2, key_type=1), Cfg("v3", auth=1, priv=1, key_type=2)),
    (Cfg("v3", auth=1), Cfg("v1", community="x" * 255)),
    (Cfg("v3", auth=2, engine_id=bytes(range(1, 33))), Cfg("v2c", community="p")),
]

RNG_VALUES = [0, 1, 0x7FFFFFFF, 0x80000000, 0xFFFFFFFF, 1 << 63, (1 << 64) - 1, 0x7FFFFFFF00000000, 0x00000001FFFFFFFF]


def gen_cases(tier):
    pairs = PAIRS_THOROUGH if tier == "thorough" else PAIRS_QUICK
    depth = 4 if tier == "thorough" else 3
    for a, b in pairs:
        descs = [a.describe(), b.describe()]
        for h in gen_histories([a, b], depth if tier == "quick" else 3, tier):
            yield {"kind": "history", "cfgs": descs, "history": h}
    if tier == "thorough":
        # depth 4 on the two most stateful pairs
        for a, b in PAIRS_QUICK[:2]:
            descs = [a.describe(), b.describe()]
            for h in gen_histories([a, b], 4, "quick"):
                if len(h) == 4:
                    yield {"kind": "history", "cfgs": descs, "history": h}
    # communities at the length-form boundaries (the community is written by its own buffer routine)
    for ver in ("v1", "v2c"):
        for L in (126, 127, 128, 129, 254, 255, 256, 257):
            cfg = Cfg(ver, community="k" * L)
            h = [["get", 0, "sys"], ["getbulk", 0, "sys", 1] if ver == "v2c" else ["getnext", 0, "long"], ["get_many", 0, "pair"]]
            yield {"kind": "history", "cfgs": [cfg.describe()], "history": h}
    # clock chains: two accepted replies with every ordered pair of agent clocks (boots / time up, down, boots up with time
    # down, extremes) - the third request must carry the clock of the second reply
    for cfg in drivers.k7():
        for i in range(6):
            for j in range(6):
                h = [["get", 0, "sys"], ["reply", 0, "ok", i], ["getbulk", 0, "sys", 1], ["reply", 0, "ok", j], ["get_many", 0, "pair"]]
                yield {"kind": "history", "cfgs": [cfg.describe()], "history": h}
    for cfg in [Cfg("v1"), Cfg("v2c")] + drivers.k7():
        for v in RNG_VALUES:
            for op in ("get", "getbulk", "refresh"):
                if op == "refresh" and cfg.version != "v3":
                    continue
                yield {"kind": "rng", "cfg": cfg.describe(), "value": v, "op": op}
    from . import c13

    for case in c13.gen_public(tier):
        cfg = Cfg.from_desc(case["cfg"])
        if cfg.discover and (not cfg.auth or case.get("lose_first") or "order" in case):
            case = dict(case)
            case["kind"] = "public-usm"
            yield case
    for driver in ("sync", "async"):
        for cfg in [Cfg("v1"), Cfg("v2c"), Cfg("v3"), Cfg("v3", auth=2, priv=2)]:
            for allow_bulk in (True, False):
                for maxrep in (None, 7):
                    for script in PUBLIC_SCRIPTS:
                        yield {
                            "kind": "public",
                            "driver": driver,
                            "cfg": cfg.describe(),
                            "allow_bulk": allow_bulk,
                            "maxrep": maxrep,
                            "script": script,
                        }


PUBLIC_SCRIPTS = [
    ["getbulk_5", "fetch", "getbulk_default"],
    ["getbulk_5", "getbulk_default", "get_many_dup", "getbulk"],
    ["get_many_same", "get_many_dup", "get"],
    ["get", "get_many_gen"],
    ["fetch", "get"],
    ["getbulk", "getnext"],
    ["getnext", "fetch"],
    ["get_many_gen", "getbulk"],
]
BASE = (1, 3, 6, 1, 2, 1, 2)


def run_public(case):
    """Public clients: which requests do get / get_many(generator) / getnext / getbulk / fetch emit?"""
    cfg = Cfg.from_desc(case["cfg"])
    expected = []
    captured = []
    maxrep_session = 13
    eff = case["maxrep"] or maxrep_session

    def responder(data, idx):
        captured.append(data)
        try:
            req = drivers.open_request(cfg, data, strict=False, check_mac=False)
        except (rb.StrictError, drivers.V3Error, ValueError):
            return []  # the oracle below reports what is wrong with it
        # end every walk at once: reply with an out-of-subtree OID
        if req.pdu_tag in (rb.PDU_GETNEXT, rb.PDU_GETBULK):
            return [drivers.reply_for(cfg, req, [((1, 3, 7, 1), rb.enc_int(1))])]
        return [drivers.reply_for(cfg, req, [(o, rb.enc_int(5)) for o in req.oids])]

    def plan(op):
        if op == "get":
            expected.append(Call("get", [histories.OIDS["sys"]]))
        elif op == "get_many_gen":
            expected.append(Call("get_many", [histories.OIDS["big"], histories.OIDS["sys"]]))
        elif op == "get_many_dup":
            expected.append(Call("get_many", [histories.OIDS["sys"], histories.OIDS["big"], histories.OIDS["sys"]]))
        elif op == "get_many_same":
            expected.append(Call("get_many", [histories.OIDS["big"], histories.OIDS["big"]]))
        elif op == "getnext":
            expected.append(Call("getnext", [BASE]))
        elif op == "getbulk":
            expected.append(Call("getbulk", [BASE], max_rep=eff))
        elif op == "getbulk_5":
            expected.append(Call("getbulk", [BASE], max_rep=5))
        elif op == "getbulk_default":
            expected.append(Call("getbulk", [BASE], max_rep=maxrep_session))
        elif op == "fetch":
            if cfg.version != "v1" and case["allow_bulk"]:
                expected.append(Call("getbulk", [BASE], max_rep=maxrep_session))
            else:
                expected.append(Call("getnext", [BASE]))

    for op in case["script"]:
        plan(op)
    extra = dict(allow_bulk=case["allow_bulk"], max_repetitions=maxrep_session)
    problems = []
    if case["driver"] == "sync":
        w = drivers.SyncWorld(cfg, responder, timeout=3.0, **extra)
        try:
            s = w.session
            for op in case["script"]:
                if op == "get":
                    o = drivers.call(s.get, rb.oid_str(histories.OIDS["sys"]))
                elif op == "get_many_gen":
                    o = drivers.call(s.get_many, (rb.oid_str(x) for x in (histories.OIDS["big"], histories.OIDS["sys"])))
                elif op in ("get_many_dup", "get_many_same"):
                    names = ("sys", "big", "sys") if op == "get_many_dup" else ("big", "big")
                    o = drivers.call(s.get_many, [rb.oid_str(histories.OIDS[x]) for x in names])
                elif op == "getnext":
                    o = drivers.call(lambda: list(s.getnext(rb.oid_str(BASE))))
                elif op == "getbulk":
                    o = drivers.call(lambda: list(s.getbulk(rb.oid_str(BASE), case["maxrep"])))
                elif op == "getbulk_5":
                    o = drivers.call(lambda: list(s.getbulk(rb.oid_str(BASE), 5)))
                elif op == "getbulk_default":
                    o = drivers.call(lambda: list(s.getbulk(rb.oid_str(BASE))))
                else:
                    o = drivers.call(lambda: list(s.fetch(rb.oid_str(BASE))))
                if o.kind != "ok":
                    problems.append(("wire", "%s raised %r" % (op, o.brief())))
            errs = w.errors
        finally:
            w.close()
    else:

        async def client(s):
            for op in case["script"]:
                if op == "get":
                    await s.get(rb.oid_str(histories.OIDS["sys"]))
                elif op == "get_many_gen":
                    await s.get_many(rb.oid_str(x) for x in (histories.OIDS["big"], histories.OIDS["sys"]))
                elif op in ("get_many_dup", "get_many_same"):
                    names = ("sys", "big", "sys") if op == "get_many_dup" else ("big", "big")
                    await s.get_many([rb.oid_str(histories.OIDS[x]) for x in names])
                elif op == "getnext":
                    [x async for x in s.getnext(rb.oid_str(BASE))]
                elif op == "getbulk":
                    [x async for x in s.getbulk(rb.oid_str(BASE), case["maxrep"])]
                elif op == "getbulk_5":
                    [x async for x in s.getbulk(rb.oid_str(BASE), 5)]
                elif op == "getbulk_default":
                    [x async for x in s.getbulk(rb.oid_str(BASE))]
                else:
                    [x async for x in s.fetch(rb.oid_str(BASE))]

        o, reqs, errs = drivers.run_async(cfg, responder, client, timeout=3.0, **extra)
        if o.kind != "ok":
            problems.append(("wire", "script raised %r" % (o.brief(),)))
    if errs:
        raise drivers.MachineryError("agent error %s" % errs[:2])
    if len(captured) != len(expected):
        problems.append(("wire", "%d datagrams emitted, %d API requests expected" % (len(captured), len(expected))))
    model = SessionModel(cfg)
    for data, call in zip(captured, expected):
        req, probs = check_request(cfg, call, data, None, CLAUSES)
        problems += [(c, t + " [%s via %s client]" % (call.op, case["driver"])) for c, t in probs]
    return problems, len(captured)


def run_rng(case):
    mod, fast = drivers.subject()
    cfg = Cfg.from_desc(case["cfg"])
    force = getattr(fast, "_verif_rng_force", None)
    if force is None:
        return None, 0
    v = case["value"]
    w = drivers.SplitWorld(cfg)  # salt draw happens here, before forcing
    try:
        force([v, v])
        if case["op"] == "get":
            call = Call("get", [histories.OIDS["sys"]])
            out = w.send("get", rb.oid_str(histories.OIDS["sys"]))
        elif case["op"] == "getbulk":
            call = Call("getbulk", [histories.OIDS["sys"]], max_rep=3)
            out = w.send("getbulk", it=fast.GetIter(rb.oid_str(histories.OIDS["sys"]), 3))
        else:
            call = Call("refresh", [])
            out = w.send("refresh")
        force([])
        if out.kind != "ok":
            return [("wire", "send failed with forced id draw %#x: %r" % (v, out.brief()))], 0
        data = w.take_request()
        req, probs = check_request(cfg, call, data, SessionModel(cfg), CLAUSES)
        probs = [(c, t + " [forced RNG draw %#x]" % v) for c, t in probs]
        if req is not None and req.request_id is not None and req.request_id != (v & 0x7FFFFFFF):
            # the seam was bypassed: not a verdict, just less coverage
            return probs, -1
        return probs, 1
    finally:
        force([])
        w.close()


def classify(text):
    """Stable signature from a problem text (numbers and hex stripped)."""
    import re

    t = re.sub(r"\[.*?\]$", "", text).strip()
    t = re.sub(r"\(first octets .*?\)", "", t)
    t = re.sub(r"[0-9a-f]{8,}", "#", t)
    t = re.sub(r"-?\d+", "N", t)
    return t[:110]


def work(chunk):
    res = common.Result()
    for case in chunk:
        res.count("cases")
        if case["kind"] == "history":
            probs, r = histories.run_history(case["cfgs"], case["history"], CLAUSES)
            res.count("datagrams", r.datagrams)
            res.count("api_calls", r.api_calls)
            res.distinct()
            probs = [(c, t) for c, t, _ in probs]
            res.outcome("history-len-%d" % len(case["history"]))
            if len(res["samples"]) < 1 and len(case["history"]) == 3:
                res.sample({"history": case["history"], "cfgs": [Cfg.from_desc(d).name for d in case["cfgs"]], "datagram_sizes": r.sizes})
        elif case["kind"] == "rng":
            probs, n = run_rng(case)
            if probs is None:
                res.count("rng_seam_absent")
                continue
            if n < 0:
                res.count("rng_seam_bypassed")
            res.count("datagrams", 1)
            res.count("api_calls", 1)
            res.distinct()
            res.outcome("forced-id")
        elif case["kind"] == "public-usm":
            # session entry with discovery through the public clients (scripts shared with C13): every request the agent
            # receives is judged by the request oracle; what the *calls* return is C13's business
            from . import c13

            probs, n = (c13.run_shared if "order" in case else c13.run_public)(case, CLAUSES)
            probs = [(c, t) for c, t in probs if c in CLAUSES and "[request" in t]
            res.count("datagrams", n)
            res.count("api_calls", len(case["script"]) + 1)
            res.distinct()
            res.outcome("public-usm-" + case["driver"])
        else:
            probs, n = run_public(case)
            res.count("datagrams", n)
            res.count("api_calls", len(case["script"]))
            res.distinct()
            res.outcome("public-" + case["driver"])
        for c, t in probs:
            res.violation("%s/%s: %s" % (case["kind"], c, classify(t)), t, case)
    return res


def replay(case):
    if case.get("engine") == "loomx":
        from .. import loomx as _lx

        return _lx.replay(case)
    common.prepare_stage()
    if case["kind"] == "history":
        probs, r = histories.run_history(case["cfgs"], case["history"], CLAUSES)
        return {"problems": probs, "datagram_sizes": r.sizes}
    if case["kind"] == "rng":
        return {"problems": run_rng(case)[0]}
    if case["kind"] == "public-usm":
        from . import c13

        probs, n = (c13.run_shared if "order" in case else c13.run_public)(case, CLAUSES)
        return {"problems": [(c, t) for c, t in probs if c in CLAUSES and "[request" in t]}
    return {"problems": run_public(case)[0]}


def run(tier):
    common.prepare_stage()
    rec = common.Recorder(PROPERTY, tier, LEVEL, MODULE)
    rec.rule = (
        "all histories up to depth %d over {get, get_many(0/2/40 OIDs), getnext, getbulk(1/128/2^31-1), refresh, oversize request, "
        "valid reply, garbage reply, Report, time-out} on pairs of sessions sharing the buffer pool; forced boundary id draws through "
        "the RNG seam; PDU-type policy of both public clients. A case is a complete history; distinct by construction; every emitted "
        "datagram is one strictly decoded observation." % (4 if tier == "thorough" else 3)
    )
    rec.assume(
        "reference codec (vlib/refber.py) is the arbiter of well-formedness and minimality",
        "request-ids and msgIDs are read from the wire; the RNG seam only adds forced boundary draws",
    )
    cases = list(gen_cases(tier))
    fast_cases = [c for c in cases if not c["kind"].startswith("public")]
    slow_cases = [c for c in cases if c["kind"].startswith("public")]
    common.run_cases(rec, work, fast_cases, chunk=400)
    common.run_cases(rec, work, slow_cases, chunk=10)
    # pool exclusivity / reset-on-acquire under all interleavings of 2-3 threads (secondary sub-check)
    loomx.explore(rec, 2, 2, 3)
    if tier == "thorough":
        loomx.explore(rec, 3, 2, 2)
    n = rec.counters["cases"]
    return rec.finish(
        evaluations=rec.counters["datagrams"],
        distinct_nontrivial=rec.distinct_n,
        states=n,
        transitions=rec.counters["api_calls"],
        traces=n,
    )
