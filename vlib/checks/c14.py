"""C14 - privacy salts never repeat and nothing confidential goes in clear.

All interleavings of the first positions of a message run (sends of every type, valid / garbage
receives, time-outs, boots changes, key re-installation), then long runs, with the salt counter
started next to its wrap-around through the RNG seam. Salts are read from the wire.
"""

import itertools

from .. import common, drivers, histcheck
from ..drivers import Cfg

PROPERTY = "C14"
LEVEL = "model_checking"
MODULE = __name__
CLAUSES = ("salt",)

work = histcheck.make_work(CLAUSES, use_salt_oracle=True)

ALPHABET = [
    ["get", 0, "sys"],
    ["get_many", 0, "pair"],
    ["getnext", 0, "sys"],
    ["getbulk", 0, "sys", 10],
    ["refresh", 0],
    ["reply", 0, "ok", 1],
    ["reply", 0, "ok", 2],
    ["reply", 0, "garbage"],
    ["timeout", 0],
    ["set_keys", 0],
    ["set_keys_bad", 0, "privlen"],
    ["oversize", 0],
]

WRAP_STARTS = {1: [0xFFFFFFFD, 0xFFFFFFFF, 0], 2: [0xFFFFFFFFFFFFFFFD, 0xFFFFFFFFFFFFFFFF, 0x00000000FFFFFFFE]}


def prefixes(depth):
    for h in itertools.product(ALPHABET, repeat=depth):
        outstanding = False
        ok = True
        for a in h:
            if a[0] in ("reply", "timeout"):
                if not outstanding:
                    ok = False
                    break
                outstanding = False
            elif a[0] not in ("set_keys", "set_keys_bad", "oversize"):
                outstanding = True
        if ok:
            yield [list(a) for a in h]


def long_run(n):
    h = []
    sends = [["get", 0, "sys"], ["get_many", 0, "pair"], ["getnext", 0, "sys"], ["getbulk", 0, "sys", 10], ["refresh", 0]]
    for i in range(n):
        h.append(sends[i % 5] if i % 7 else sends[(i // 7) % 5])
        if i % 11 == 3:
            h.append(["reply", 0, "ok", (i // 11) % 6])
        elif i % 13 == 5:
            h.append(["reply", 0, "garbage"])
        elif i % 17 == 9:
            h.append(["timeout", 0])
    return h


def gen_cases(tier):
    thorough = tier == "thorough"
    depth = 5 if thorough else 4
    for priv in (1, 2):
        for auth in (1, 2):
            cfg = Cfg("v3", auth=auth, priv=priv)
            starts = WRAP_STARTS[priv] if auth == 2 else WRAP_STARTS[priv][:1]
            for start in starts:
                tail = [["get", 0, "sys"], ["refresh", 0], ["get_many", 0, "pair"], ["getbulk", 0, "sys", 2]]
                for pre in prefixes(depth if auth == 2 or thorough else depth - 1):
                    yield {"class": "prefix-interleavings", "cfgs": [cfg.describe()], "history": pre + tail, "force_salt": start}
        for start in WRAP_STARTS[priv] + [None]:
            for disc in (False, True):
                cfg = Cfg("v3", auth=2, priv=priv, discover=disc)
                pre = [["discover", 0, 1]] if disc else []
                n = 20000 if thorough else 600
                yield {"class": "long-run", "cfgs": [cfg.describe()], "history": pre + long_run(n), "force_salt": start}
    # refused key installations of every kind between messages: the counter carries on as if nothing happened
    for priv in (1, 2):
        for auth in (1, 2):
            cfg = Cfg("v3", auth=auth, priv=priv)
            hows = ["privlen", "privempty", "authlen", "privalg"]
            for k in (1, 2):
                for combo in itertools.product(hows, repeat=k):
                    h = [["get", 0, "sys"]]
                    for how in combo:
                        h += [["set_keys_bad", 0, how], ["get_many", 0, "pair"]]
                    h += [["set_keys", 0], ["get", 0, "sys"], ["set_keys_bad", 0, combo[0]], ["refresh", 0], ["getnext", 0, "sys"]]
                    yield {"class": "refused-set-keys", "cfgs": [cfg.describe()], "history": h, "force_salt": WRAP_STARTS[priv][0]}
    # several privacy sessions in one process, sends interleaved, keys (re)installed on one while the others run:
    # every session's counter is its own
    for pa, pb in ((1, 1), (2, 2), (1, 2)):
        a = Cfg("v3", auth=2, priv=pa)
        b = Cfg("v3", auth=1, priv=pb, user="second", priv_pass=b"another-pass")
        c = Cfg("v3", auth=2, priv=pa, user="third")
        for order in itertools.product((0, 1), repeat=4):
            h = [["get", 0, "sys"], ["get", 1, "sys"]]
            for s_ in order:
                h.append(["get_many", s_, "pair"])
            h += [["set_keys", 2], ["get", 0, "sys"], ["get", 2, "sys"], ["set_keys", 1], ["getnext", 0, "sys"], ["get", 1, "sys"], ["refresh", 0]]
            yield {"class": "sessions-interleaved", "cfgs": [a.describe(), b.describe(), c.describe()], "history": h, "force_salt": None}
    # two sessions with the same credentials keep separate counters but each is unique on its own
    a = Cfg("v3", auth=2, priv=2)
    yield {
        "class": "two-sessions",
        "cfgs": [a.describe(), a.describe()],
        "history": [["get", i % 2, "sys"] for i in range(40)],
        "force_salt": 0xFFFFFFFFFFFFFFFE,
    }


def work_public(chunk):
    """Public `User` with an empty privacy password: whatever the session does with it, no request may leave in clear."""
    from . import c12

    res = common.Result()
    for case in chunk:
        outcome, clear = c12.empty_priv_password_case(case)
        res.count("cases")
        res.count("api_calls", 2)
        res.distinct()
        res.outcome("empty-priv-password")
        if clear:
            res.violation("public/empty-priv-password: request sent without privacy", "%s (calls ended with %s)" % (clear[0], outcome), case)
    return res


def work_raw_no_eid(chunk):
    """Low-level socket created with its real user and keys but without an engine id: every message it sends before
    (and after) the engine id is learnt carries the priv flag and nothing of the scoped PDU in clear."""
    from .. import refber as rb
    from . import c10

    res = common.Result()
    SYS = (1, 3, 6, 1, 2, 1, 1, 5, 0)
    for case in chunk:
        base = Cfg.from_desc(case["cfg"])
        cfg = c10.EmptyEidCfg.from_desc(case["cfg"])
        cfg.__class__ = c10.EmptyEidCfg
        w = drivers.SplitWorld(cfg)
        try:
            for op in ("refresh", "get", "get_many", "refresh"):
                o = w.send(op, rb.oid_str(SYS)) if op == "get" else (w.send(op, [rb.oid_str(SYS)]) if op == "get_many" else w.send(op))
                data = w.take_request() if o.kind == "ok" else None
                res.count("cases")
                res.count("datagrams", 1 if data else 0)
                res.count("api_calls")
                res.distinct()
                res.outcome("raw-no-engine-id")
                if data is None:
                    continue
                r = rb.parse_message(data, strict=False)
                prob = None
                # a discovery probe (no varbinds) may legitimately go out noAuthNoPriv (RFC 3414 s.4) - then in clear and flagged so;
                # anything that names an OID must be encrypted, and the flag always says what the body is
                if bool(r.flags & 2) != (r.encrypted is not None):
                    prob = "msgFlags %02x but msgData is %s" % (r.flags, "encrypted" if r.encrypted is not None else "in clear")
                elif op != "refresh" and not r.flags & 2:
                    prob = "priv flag clear (msgFlags %02x) on a request that names an OID" % r.flags
                elif op == "refresh" and r.encrypted is None and r.oids:
                    prob = "plaintext probe carries varbinds"
                elif rb.oid_content(SYS) in data and op != "refresh":
                    prob = "the OID is readable in the datagram"
                elif r.encrypted is not None and len(r.priv_params) != 8:
                    prob = "msgPrivacyParameters is %d octets" % len(r.priv_params)
                if prob:
                    res.violation("raw-no-engine-id/%s: %s" % (base.name, histcheck.classify(prob)), "%s sent before the engine id is known: %s" % (op, prob), {"raw_no_eid": True, "cfg": case["cfg"]})
                    break
        finally:
            w.close()
    return res



def gen_public_sessions(tier):
    """Both public clients with a privacy user: discovery at session entry, incl. the first discovery datagram lost and the entry
    repeated, one User object shared by sessions, an iterator prepared before entry."""
    from . import c13

    for case in c13.gen_public(tier):
        cfg = Cfg.from_desc(case["cfg"])
        if cfg.priv and ("order" in case or case.get("lose_first") or case.get("empty_eid_arg") or "pre_iter" in case["script"]):
            yield case


def _public_problems(case):
    from . import c13

    probs, n = (c13.run_shared if "order" in case else c13.run_public)(case, ("salt",))
    keep = []
    for c, t in probs:
        if c == "salt" and PROPERTY == "C11" and not ("not an OCTET STRING" in t or "priv flag" in t):
            continue  # salt values are C14's clause
        if c in ("salt",):
            keep.append((c, t))
    return keep, n


def work_public_sessions(chunk):
    res = common.Result()
    for case in chunk:
        probs, n = _public_problems(case)
        res.count("cases")
        res.count("datagrams", n)
        res.count("api_calls", len(case["script"]) + 1)
        res.distinct()
        res.outcome("public-" + case["driver"] + ("-lost-probe" if case.get("lose_first") else ""))
        for c, t in probs:
            res.violation("public/%s/%s: %s" % (case["driver"], c, histcheck.classify(t)), t, case)
    return res

def replay(case):
    if "driver" in case and "script" in case:
        common.prepare_stage()
        probs, n = _public_problems(case)
        return {"problems": probs, "requests": n, "holds": not probs}
    if case.get("raw_no_eid"):
        common.prepare_stage()
        r = work_raw_no_eid([case])
        return {"violations": [(v[0], v[1]) for v in r["violations"]]}
    if case.get("empty_priv"):
        from . import c12

        common.prepare_stage()
        return {"result": c12.empty_priv_password_case(case)}
    return histcheck.replay(case, CLAUSES, use_salt_oracle=True)


def run(tier):
    common.prepare_stage()
    mod, fast = drivers.subject()
    rec = common.Recorder(PROPERTY, tier, LEVEL, MODULE)
    rec.rule = (
        "every interleaving of %d leading steps over {5 request types, reply with boots change, garbage, time-out, set_keys, refused set_keys, refused over-sized request} followed by a fixed "
        "tail, per cipher and salt start (next to wrap-around via the RNG seam); long mixed runs; discovery+set_keys; two or three privacy sessions with interleaved sends and key installations in between. "
        "evaluations = datagrams whose msgPrivacyParameters/flags/clear text were examined." % (5 if tier == "thorough" else 4)
    )
    rec.assume(
        "salts are read from the wire; the RNG seam only chooses where the counter starts",
        "a request refused before anything is sent (over-sized) may use up one counter value: between two consecutive messages with r refusals in between the counter advances by 1..1+r; it never repeats",
    )
    if not hasattr(fast, "_verif_rng_force"):
        rec.cap("RNG seam absent: wrap-around of the salt counter not forced")
    common.run_cases(rec, work, list(gen_cases(tier)), chunk=50)
    pub = [{"empty_priv": True, "auth": a, "priv": p, "discover": d, "kt": 0, "klen": 0} for a, p, d in itertools.product((1, 2), (1, 2), (False, True))]
    common.run_cases(rec, work_public, pub, chunk=2)
    common.run_cases(rec, work_public_sessions, list(gen_public_sessions(tier)), chunk=6)
    common.run_cases(rec, work_raw_no_eid, [{"cfg": Cfg("v3", auth=a, priv=p, key_type=kt).describe()} for a in (1, 2) for p in (1, 2) for kt in (0, 1)], chunk=2)
    return histcheck.finish(rec)
