"""C05 - a walk returns the whole subtree, in order, once - by GetNext or GetBulk.

All MIBs that are subsets of a small OID universe (chosen so that byte order and arc order of
the BER encodings interact) x base OIDs x {getnext; getbulk with every max_repetitions x agent cap;
fetch} x {v1, v2c, v3} through the iterator objects of both public clients, against the RFC 3416
reference agent. Oracle: the entries strictly below the base, in order, once; then the iterator ends;
nothing is requested after the agent signalled the end.
"""

import itertools

from .. import common, drivers, refber as rb, values
from ..drivers import Cfg
from ..refagent import Mib, RefAgent

PROPERTY = "C05"
LEVEL = "model_checking"
MODULE = __name__

R = (1, 3, 6, 1, 4, 1, 9)
UNIVERSE = [
    R[:-1] + (8, 5),  # before the subtree
    R + (1, 1),
    R + (1, 1, 0),
    R + (1, 2),
    R + (1, 127),
    R + (1, 128),
    R + (1, 129),
    R + (1, 200),
    R + (1, 16383),
    R + (1, 16383, 7),
    R + (1, 16384),
    R + (1, 16384, 1),
    R + (1, 2097152),
    R + (2,),
    R[:-1] + (10, 1),  # after the subtree
]
# quick tier uses a 10-element sub-universe, thorough all 14
QUICK_IDX = [0, 1, 2, 3, 5, 7, 9, 10, 11, 14]
BASES = [R, R + (1,), R + (1, 1), R + (1, 2), R + (1, 16384), R + (1, 16383), R + (1, 5), R + (2,), (1, 3), R + (3,)]
KINDS = ["int", "octets", "counter32", "oid", "gauge32", "timeticks", "counter64", "ipaddr", "uint32", "opaque", "bool", "objdesc", "int", "octets", "counter32"]


def entry(i):
    v = values.representative(KINDS[i])
    return (UNIVERSE[i], v.tlv, v.py)


ENTRIES = [entry(i) for i in range(len(UNIVERSE))]


def arc_mib(v):
    """A little MIB around a subtree whose root ends in sub-identifier v (for the arc-width slice)."""
    iv = values.representative("int")
    ov = values.representative("octets")
    ents = [(UNIVERSE[0], iv.tlv, iv.py), (R + (1, v, 1), iv.tlv, iv.py), (R + (1, v, 2, 0), ov.tlv, ov.py), (R + (1, v, 4294967295), iv.tlv, iv.py)]
    if v > 0:
        ents.append((R + (1, v - 1), ov.tlv, ov.py))
    if v < 4294967295:
        ents.append((R + (1, v + 1), ov.tlv, ov.py))
    ents.append((UNIVERSE[-1], iv.tlv, iv.py))
    return Mib(sorted(ents))


def long_mib():
    """Rows whose names have 10, 127 and exactly 128 sub-identifiers, and names of 129 / 258 / 326 content octets."""
    iv = values.representative("int")
    ov = values.representative("octets")
    b = R + (1,)
    rows = [b + (5,) * 2, b + (5,) * 119, b + (5,) * 119 + (0,), b + (5,) * 119 + (4294967295,), b + (6,) + (300,) * 61, b + (7,) + (16384,) * 83, b + (8,) + (4294967295,) * 63, b + (9,)]
    ents = [(UNIVERSE[0], iv.tlv, iv.py)] + [(o, (iv if i % 2 else ov).tlv, (iv if i % 2 else ov).py) for i, o in enumerate(rows)] + [(UNIVERSE[-1], iv.tlv, iv.py)]
    return Mib(sorted(ents))


def sibling_mib(a, b):
    """Two rows R.1.a.7 < R.1.b whose encodings have the same length although a and b have different widths."""
    iv = values.representative("int")
    ov = values.representative("octets")
    ents = [(UNIVERSE[0], iv.tlv, iv.py), (R + (1, a, 7), ov.tlv, ov.py), (R + (1, b), iv.tlv, iv.py), (R + (1, b, 1), ov.tlv, ov.py), (UNIVERSE[-1], iv.tlv, iv.py)]
    return Mib(sorted(ents))


MANY_BASE = (1, 3, 6, 1, 3, 7)


def many_mib(n):
    """n rows with short names and one-octet values (a reply of ~280 of them fits one datagram)."""
    iv = values.v_int(1) if hasattr(values, "v_int") else values.representative("int")
    return Mib([(MANY_BASE + (i,), rb.enc_int(i % 100), i % 100) for i in range(1, n + 1)])


def mib_for(mask, idx):
    if isinstance(idx, dict):
        if "many" in idx:
            return many_mib(idx["many"])
        if "long" in idx:
            return long_mib()
        if "sib" in idx:
            return sibling_mib(*idx["sib"])
        return arc_mib(idx["arc"])
    return Mib([ENTRIES[i] for b, i in enumerate(idx) if mask >> b & 1])


def expected(mib, base):
    return [(rb.oid_str(o), py) for o, _, py in mib.below(base)]


def in_subtree(oid, base):
    return len(oid) > len(base) and tuple(oid[: len(base)]) == tuple(base)


class Tracker:
    """Wraps the reference agent: notes whether anything is requested after the end of the subtree."""

    def __init__(self, cfg):
        self.cfg = cfg
        self.agent = None
        self.base = None
        self.after_end = 0
        self.ended = False
        self.requests = []

    def arm(self, mib, cap, base):
        self.agent = RefAgent(self.cfg, mib, cap)
        self.base = tuple(base)
        self.after_end = 0
        self.ended = False
        self.requests = []

    def __call__(self, data, idx=None):
        # lenient parse: whether the request is canonical is C03's / C08's subject; the agent must keep answering
        try:
            req = drivers.open_request(self.cfg, data, strict=False, check_mac=False)
        except (rb.StrictError, drivers.V3Error, ValueError):
            return []
        if req.request_id is None or not req.oids:
            return []
        if self.ended:
            self.after_end += 1
        self.requests.append((req.pdu_tag, req.oids[0] if req.oids else None, req.b))
        rep = self.agent.answer(req)
        # did this reply tell the walker that the subtree is exhausted?
        r = drivers.open_request(self.cfg, rep, strict=True, check_mac=False)
        # (C06 wording: the walk ends at the first out-of-subtree OID, or when a reply carries no data values)
        data_values = 0
        for oid, (tag, _) in zip(r.oids, r.values):
            if tag in (0x80, 0x81, 0x82, 0x05):
                continue
            data_values += 1
            if not in_subtree(oid, self.base):
                self.ended = True
        if r.a != 0 or data_values == 0:
            self.ended = True
        return [rep]


def compare(exp, got):
    if len(exp) != len(got):
        return False
    for (eo, ev), item in zip(exp, got):
        if not isinstance(item, tuple) or len(item) != 2:
            return False
        if item[0] != eo or not values.py_equal(ev, item[1]):
            return False
    return True


def method_params(case):
    m = case["method"]
    if m == "getnext":
        return [("getnext", None, None)]
    if m == "fetch":
        return [("fetch", None, c) for c in case["caps"]]
    return [("getbulk", mr, c) for mr in case["maxreps"] for c in case["caps"]]


def check_requests(tr, base, method, version, maxrep, yielded, session_maxrep):
    """Request OIDs seen by the agent: base first, then each last-accepted OID; PDU kind per method."""
    probs = []
    want_bulk = method == "getbulk" or (method == "fetch" and version != "v1")
    tag = rb.PDU_GETBULK if want_bulk else rb.PDU_GETNEXT
    if not tr.requests:
        return ["no request was sent"]
    if any(t != tag for t, _, _ in tr.requests):
        probs.append("PDU tags %s, expected all %02x" % (sorted({"%02x" % t for t, _, _ in tr.requests}), tag))
    if tr.requests[0][1] != tuple(base):
        probs.append("first request is for %s, not for the base" % rb.oid_str(tr.requests[0][1] or ()))
    if want_bulk:
        mr = maxrep if method == "getbulk" else session_maxrep
        if any(b != mr for _, _, b in tr.requests):
            probs.append("max-repetitions on the wire %s, requested %d" % (sorted({b for _, _, b in tr.requests}), mr))
    yo = [y[0] for y in yielded if isinstance(y, tuple)]
    for _, oid, _ in tr.requests[1:]:
        if rb.oid_str(oid) not in yo:
            probs.append("follow-up request for %s which was never yielded" % rb.oid_str(oid))
            break
    if tr.after_end:
        probs.append("%d request(s) sent after the agent's reply had shown the end of the subtree" % tr.after_end)
    return probs


SESSION_MAXREP = 3


def run_case_sync(case, res):
    cfg = Cfg.from_desc(case["cfg"])
    idx = case["idx"]
    tr = Tracker(cfg)
    w = drivers.SyncWorld(cfg, tr, timeout=3.0, max_repetitions=SESSION_MAXREP)
    try:
        s = w.session
        for mask in range(case["mask_lo"], case["mask_hi"]):
            mib = mib_for(mask, idx)
            for base in case["bases"]:
                exp = expected(mib, base)
                for method, mr, cap in method_params(case):
                    b = rb.oid_str(base)
                    for attempt in range(2):
                        if case.get("refused_first"):
                            # a request too large for the message buffer is refused locally (nothing reaches the agent) - the walk
                            # that follows, on this session and on others, is as complete as any
                            drivers.call(s.get_many, ["1.3"] * 700)
                        tr.arm(mib, cap, base)
                        if method == "getnext":
                            out = drivers.call(lambda: list(s.getnext(b)))
                        elif method == "getbulk":
                            out = drivers.call(lambda: list(s.getbulk(b, mr)))
                        else:
                            out = drivers.call(lambda: list(s.fetch(b)))
                        if not stalled(out, tr):
                            break
                        res.count("timeouts_retried")  # the agent answered everything it received: a lost datagram / stalled host, walk repeated
                    judge(res, case, "sync", cfg, mask, base, method, mr, cap, exp, out, tr)
        if w.errors:
            res["machinery"].append("agent errors: %s" % w.errors[:2])
    finally:
        w.close()


def run_case_async(case, res):
    cfg = Cfg.from_desc(case["cfg"])
    idx = case["idx"]
    tr = Tracker(cfg)

    async def client(s):
        for mask in range(case["mask_lo"], case["mask_hi"]):
            mib = mib_for(mask, idx)
            for base in case["bases"]:
                exp = expected(mib, base)
                for method, mr, cap in method_params(case):
                    b = rb.oid_str(base)
                    for attempt in range(2):
                        if case.get("refused_first"):
                            try:
                                await s.get_many(["1.3"] * 700)
                            except Exception:  # noqa: BLE001
                                pass
                        tr.arm(mib, cap, base)
                        try:
                            if method == "getnext":
                                got = [x async for x in s.getnext(b)]
                            elif method == "getbulk":
                                got = [x async for x in s.getbulk(b, mr)]
                            else:
                                got = [x async for x in s.fetch(b)]
                            out = drivers.Outcome("ok", got)
                        except BaseException as e:  # noqa: BLE001
                            if isinstance(e, (KeyboardInterrupt, SystemExit, MemoryError)):
                                raise
                            out = drivers.Outcome("exc", exc=e)
                        if not stalled(out, tr):
                            break
                        res.count("timeouts_retried")
                    judge(res, case, "async", cfg, mask, base, method, mr, cap, exp, out, tr)

    o, reqs, errs = drivers.run_async(cfg, tr, client, timeout=3.0, max_repetitions=SESSION_MAXREP)
    if errs:
        res["machinery"].append("agent errors: %s" % errs[:2])
    if o.kind != "ok":
        if isinstance(o.exc, TooManyViolations):
            raise o.exc
        res["machinery"].append("async driver failed: %r" % (o.brief(),))


def stalled(out, tr):
    """A time-out of the real 3 s timer. It is repeated once before being judged: the walk is deterministic,
    so a property violation shows again, a datagram dropped by the loopback or a stalled host does not."""
    return out.kind == "exc" and isinstance(out.exc, TimeoutError)


class TooManyViolations(Exception):
    pass


def judge(res, case, driver, cfg, mask, base, method, mr, cap, exp, out, tr):
    if res["counters"].get("violating_walks", 0) > 60:
        raise TooManyViolations()
    res.count("walks")
    res.count("requests", len(tr.requests))
    if exp:
        res.distinct()
    probs = []
    if out.kind != "ok":
        probs.append("walk raised %r" % (out.brief(),))
        got = []
    else:
        got = out.value
        if not compare(exp, got):
            probs.append("yielded %s, expected %s" % (_short(got), _short(exp)))
    probs += check_requests(tr, base, method, cfg.version, mr, got, SESSION_MAXREP)
    res.outcome("len-%d" % min(len(exp), 9))
    if probs:
        res.count("violating_walks")
        small = {
            "driver": driver,
            "cfg": case["cfg"],
            "idx": case["idx"],
            "mask_lo": mask,
            "mask_hi": mask + 1,
            "bases": [list(base)],
            "method": method,
            "maxreps": [mr],
            "caps": [cap],
        }
        for p in probs:
            res.violation("%s/%s/%s: %s" % (driver, cfg.version, method, _cls(p)), "MIB %s base %s %s(max_rep=%s, cap=%s): %s" % (("special MIB %s" % case["idx"]) if isinstance(case["idx"], dict) else [rb.oid_str(UNIVERSE[i]) for b, i in enumerate(case["idx"]) if mask >> b & 1], rb.oid_str(base), method, mr, cap, p), small)
    elif len(res["samples"]) < 2 and len(exp) >= 3:
        res.sample({"driver": driver, "cfg": cfg.name, "base": rb.oid_str(base), "method": method, "max_rep": mr, "cap": cap, "yielded": [g[0] for g in got], "requests": len(tr.requests)})


def _short(lst):
    return [x[0].replace(rb.oid_str(R), "R") if isinstance(x, tuple) else repr(x) for x in lst][:14]


def _cls(t):
    import re

    return re.sub(r"\[.*\]", "[..]", re.sub(r"\d+", "N", t))[:90]


def work(chunk):
    res = common.Result()
    for case in chunk:
        try:
            if case["driver"] == "sync":
                run_case_sync(case, res)
            else:
                run_case_async(case, res)
        except TooManyViolations:
            res["caps"].append("a block of walks was abandoned after 60 violating walks")
        res.count("cases")
    return res


def gen_cases(tier):
    thorough = tier == "thorough"
    plans = []
    if thorough:
        idx = list(range(len(UNIVERSE)))
        block = 64
        plans.append(("sync", idx, block, [1, 2, 3, 4], [1, 2, 3, 4, None]))
        plans.append(("async", idx, block, [1, 2, 4], [1, 3, None]))
    else:
        plans.append(("sync", QUICK_IDX, 32, [1, 2, 4], [1, 3, None]))
        plans.append(("async", QUICK_IDX[:8], 32, [2, 4], [1, 3]))
    for driver, idx, block, maxreps, caps in plans:
        nmask = 1 << len(idx)
        for cfg in (Cfg("v1"), Cfg("v2c"), Cfg("v3")):
            for method in ("getnext", "getbulk", "fetch"):
                if method == "getbulk" and cfg.version == "v1":
                    continue
                for lo in range(0, nmask, block):
                    yield {
                        "driver": driver,
                        "cfg": cfg.describe(),
                        "idx": idx,
                        "mask_lo": lo,
                        "mask_hi": min(nmask, lo + block),
                        "bases": [list(b) for b in BASES],
                        "method": method,
                        "maxreps": maxreps,
                        "caps": caps if cfg.version != "v1" else [None],
                    }
    # authenticated + encrypted v3 on a thin slice (the iterator logic is version independent)
    for driver in ("sync", "async"):
        yield {
            "driver": driver,
            "cfg": Cfg("v3", auth=2, priv=2).describe(),
            "idx": QUICK_IDX,
            "mask_lo": 1000,
            "mask_hi": 1024,
            "bases": [list(b) for b in BASES[:3]],
            "method": "getbulk",
            "maxreps": [2],
            "caps": [None, 1],
        }


    # subtree roots ending in a sub-identifier at every base-128 width boundary (and inside each width)
    arcs = sorted({x + d for k in (7, 14, 21, 28) for x in (1 << k,) for d in (-1, 0, 1)} | {0, 1, 1 << 20, 1500000, (1 << 21) - 2, 1 << 27, 1 << 31, (1 << 32) - 2, (1 << 32) - 1, 100000, 20000})
    for driver in ("sync", "async"):
        for cfg in (Cfg("v2c"), Cfg("v1")):
            for v in arcs:
                for method in ("getnext", "getbulk", "fetch"):
                    if method == "getbulk" and cfg.version == "v1":
                        continue
                    yield {
                        "driver": driver,
                        "cfg": cfg.describe(),
                        "idx": {"arc": v},
                        "mask_lo": 0,
                        "mask_hi": 1,
                        "bases": [list(R + (1, v)), list(R + (1, v, 2)), list(R + (1,))],
                        "method": method,
                        "maxreps": [2, 10],
                        "caps": [None] if cfg.version == "v1" else [None, 1],
                    }
    # long names (127 / 128 sub-identifiers, >= 128 content octets) and equal-length siblings of different arc widths
    specials = [{"long": 1}]
    for a, b in itertools.product((128, 200, 300, 16383), (16384, 20000, 2097151)):
        specials.append({"sib": [a, b]})
    for a, b in itertools.product((16384, 20000, 2097151), (2097152, 3000000, 268435455)):
        specials.append({"sib": [a, b]})
    for driver in ("sync", "async"):
        for cfg in (Cfg("v2c"), Cfg("v1")):
            for sp in specials:
                for method in ("getnext", "getbulk", "fetch"):
                    if method == "getbulk" and cfg.version == "v1":
                        continue
                    yield {
                        "driver": driver,
                        "cfg": cfg.describe(),
                        "idx": sp,
                        "mask_lo": 0,
                        "mask_hi": 1,
                        "bases": [list(R + (1,)), list(R)],
                        "method": method,
                        "maxreps": [1, 3, 10],
                        "caps": [None] if cfg.version == "v1" else [None, 2],
                    }
    # replies of 255..280 varbinds (many short rows, large max_repetitions, generous agent)
    for driver in ("sync", "async"):
        yield {
            "driver": driver,
            "cfg": Cfg("v2c").describe(),
            "idx": {"many": 400},
            "mask_lo": 0,
            "mask_hi": 1,
            "bases": [list(MANY_BASE)],
            "method": "getbulk",
            "maxreps": [254, 255, 256, 257, 280, 300, 1000],
            "caps": [255, 256, 280],
        }
    # walks that follow a locally refused (over-sized) request
    full_ = (1 << len(QUICK_IDX)) - 1
    for driver in ("sync", "async"):
        for cfg in (Cfg("v1"), Cfg("v2c"), Cfg("v3", auth=2, priv=2)):
            for method in ("getnext", "fetch", "getbulk"):
                if cfg.version == "v1" and method == "getbulk":
                    continue
                yield {
                    "driver": driver,
                    "cfg": cfg.describe(),
                    "idx": QUICK_IDX,
                    "mask_lo": full_ - 3,
                    "mask_hi": full_ + 1,
                    "bases": [list(b) for b in BASES[:4]],
                    "method": method,
                    "maxreps": [2, 10],
                    "caps": [None, 3],
                    "refused_first": True,
                }
    # every max_repetitions value across the INTEGER width boundaries, on a full MIB
    mrs = list(range(1, 301)) + [32767, 32768, 65535, 65536, 8388607, 8388608, 2**31 - 1]
    if thorough:
        mrs = list(range(1, 1100)) + [x + d for x in (32768, 65536, 8388608) for d in (-2, -1, 0, 1)] + [2**31 - 2, 2**31 - 1]
    full = (1 << len(QUICK_IDX)) - 1
    for driver in ("sync", "async"):
        for k in range(0, len(mrs), 60):
            yield {
                "driver": driver,
                "cfg": Cfg("v2c").describe(),
                "idx": QUICK_IDX,
                "mask_lo": full,
                "mask_hi": full + 1,
                "bases": [list(BASES[1])],
                "method": "getbulk",
                "maxreps": mrs[k : k + 60],
                "caps": [None, 10] if driver == "sync" else [10],
            }


def replay(case):
    common.prepare_stage()
    res = common.Result()
    case = dict(case)
    case["bases"] = [tuple(b) for b in case["bases"]]
    (run_case_sync if case["driver"] == "sync" else run_case_async)(case, res)
    return {"violations": [(v[0], v[1]) for v in res["violations"]], "walks": res["counters"].get("walks")}


def run(tier):
    common.prepare_stage()
    rec = common.Recorder(PROPERTY, tier, LEVEL, MODULE)
    rec.rule = (
        "every MIB that is a subset of the OID universe (arcs 1,2,127,128,129,200,16383,16384,2097152; a child below a leaf-like node; entries before "
        "and after the subtree) x 10 bases (root, subtree, node with child, leaf, two multi-octet arcs, absent, last, '1.3', beyond) x {getnext; getbulk max_rep x agent cap; fetch}; subtree roots ending in a sub-identifier at each base-128 width boundary; rows with names of 127 / 128 sub-identifiers and of >= 128 content octets; sibling rows of equal encoded length but different arc widths; 400 short rows fetched 254..280 per reply; every max_repetitions 1..300 (thorough 1..1099) and the INTEGER width boundaries on a full MIB "
        "x {v1,v2c,v3} through sync and async iterators. Non-trivial = the expected result is non-empty. Quick: 2^10 MIBs (sync), 2^8 (async); thorough: 2^15."
    )
    rec.assume(
        "agent = RFC 3416 reference (vlib/refagent.py): lexicographic successor over arcs, endOfMibView repeated up to the cap, v1 noSuchName with echoed varbinds",
        "iterator logic does not depend on the v3 security level (thin authPriv slice only)",
    )
    cases = list(gen_cases(tier))
    for c in cases:
        c["bases"] = [tuple(b) for b in c["bases"]]
    common.run_cases(rec, work, cases, chunk=1, timeout=900, case_timeout=600)
    n = rec.counters["walks"]
    return rec.finish(evaluations=n, distinct_nontrivial=rec.distinct_n, states=n, transitions=rec.counters["requests"], traces=n)
