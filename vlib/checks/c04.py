"""C04 - only the reply to the outstanding request is ever delivered.

Explicit-state breadth-first search of the product {real client socket, network}.
A state is the action history reaching it (re-executed on fresh real objects); states are
de-duplicated on a canonical fingerprint. The network may deliver in any order, drop,
duplicate, rewrite one field, or truncate; duplicates/rewrites/truncations are deviations
(bounded), loss and reordering are free. Every client-side transition (send / receive) is
executed on the real implementation and compared with a reference model that is computed
from the ids actually seen on the wire.
"""

import os

from .. import common, drivers, refber as rb
from ..drivers import Cfg

PROPERTY = "C04"
LEVEL = "model_checking"
MODULE = __name__

OID = (1, 3, 6, 1, 2, 1, 1, 5, 0)

MUTS_COMMUNITY = [
    "rid+1",
    "rid-1",
    "rid+2^32",
    "rid-2^32",
    "rid|2^31",
    "rid-2^31",
    "rid=r*",  # expands to the id of every other request sent so far
    "comm-case",
    "comm-prefix",
    "comm-empty",
    "comm-longer",
    "comm+256",  # the session's community followed by 256 more octets (length difference invisible modulo 256)
    "version-other",
    "version-3",
    "trunc-1",
    "trunc-half",
    "trunc-all",  # an empty datagram
    "req+rid+1",  # a *request* PDU (GetRequest) of the right community with a foreign request-id (looped-back request)
    "rid+1/len84",  # non-matching reply whose outer SEQUENCE length is written in four octets (30 84 00 00 ..): well-formed BER
    "len84",  # the genuine reply, outer length in four octets: still the reply
    "big/trunc-2",  # a reply of > 255 octets cut inside its own header (30 82 | hh ll ...): does not decode
    "big/trunc-3",
]
MUTS_COMMUNITY_REDUCED = ["rid+1", "rid=r*", "comm-case", "version-other", "trunc-1", "trunc-all", "req+rid+1", "rid+1/len84", "big/trunc-3"]
MUTS_V3 = [
    "rid+1",
    "rid+2^32",
    "rid|2^31",
    "rid=r*",
    "msgid+1",
    "msgid+2^32",
    "msgid|2^31",
    "msgid=r*",
    "user-other",
    "user-empty",
    "engine-other",
    "engine-longer",  # the session's engine id followed by two more octets (a prefix test would accept it)
    "engine-empty",
    "version-1",
    "trunc-1",
    "trunc-half",
    "trunc-all",
    "report",  # Report PDU keeping the message id of its request
    "report+rid0",  # ... not echoing the request-id (RFC 3412: 0 when the request could not be read)
    "report+msgid+1",
    "report+msgid=r*",
    "rid+1/len84",
    "len84",
    "big/trunc-2",
    "big/trunc-3",
]
MUTS_V3_REDUCED = ["rid+1", "msgid=r*", "user-other", "trunc-1", "report", "report+rid0", "report+msgid=r*"]


def muts_for(cfg, reduced=False):
    if cfg.version == "v3":
        return MUTS_V3_REDUCED if reduced else MUTS_V3
    return MUTS_COMMUNITY_REDUCED if reduced else MUTS_COMMUNITY


# ------------------------------------------------------------------ model
# state = (sent, pending, inflight(sorted tuple of descriptors), queue(tuple), devs)
# descriptor = (k, copy, mut)


def initial():
    return (0, False, (), (), 0)


def actions(state, K, D, muts):
    sent, pending, inflight, queue, devs = state
    if sent == K and not pending:
        return []
    acts = []
    if not pending and sent < K:
        acts.append(("send",))
    if pending and queue:
        acts.append(("recv",))
    if pending:
        acts.append(("giveup",))
    seen = set()
    for d in inflight:
        if d in seen:
            continue
        seen.add(d)
        acts.append(("deliver", d))
        acts.append(("drop", d))
        if devs < D:
            if d[1] == 0 and (d[0], 1, d[2]) not in inflight and d[2] is None:
                acts.append(("dup", d))
            if d[2] is None:
                for m in muts:
                    if m.endswith("=r*"):
                        for j in range(1, sent + 1):
                            if j != d[0]:
                                acts.append(("mut", d, m[:-1] + str(j)))
                    else:
                        acts.append(("mut", d, m))
    return acts


def owners(d):
    """(request whose request-id the datagram carries, request whose msgID it carries); None = nobody's."""
    k, _, m = d
    rid_owner = mid_owner = k
    if m is None:
        return rid_owner, mid_owner
    body = m[len("report+") :] if m.startswith("report+") else m
    if body.startswith("req+"):
        body = body[4:]
    body = body.split("/")[0]
    if body == "len84":
        return rid_owner, mid_owner
    if body == "rid0":
        rid_owner = None
    elif body.startswith("rid=r"):
        rid_owner = int(body[5:])
    elif body.startswith("rid"):
        rid_owner = None
    elif body.startswith("msgid=r"):
        mid_owner = int(body[7:])
    elif body.startswith("msgid"):
        mid_owner = None
    return rid_owner, mid_owner


def classify(d, cfg, same_rid, same_mid):
    """same_rid(owner) / same_mid(owner): does that owner's id equal the outstanding request's id?"""
    k, _, m = d
    if m is not None and (m.startswith("trunc") or m.startswith("version") or "/trunc" in m):
        return "undecodable"
    if m is not None and (m.startswith("comm") or m.startswith("user") or m.startswith("engine")):
        return "skip"
    rid_owner, mid_owner = owners(d)
    if cfg.version == "v3":
        if not same_mid(mid_owner, d):
            return "skip"
        if m is not None and m.startswith("report"):
            return "report"
        return "match" if same_rid(rid_owner, d) else "skip"
    return "match" if same_rid(rid_owner, d) else "skip"


def sym_class(d, sent, cfg):
    """Symbolic classification while request `sent` is outstanding (distinct requests have distinct ids)."""
    return classify(d, cfg, lambda o, _d: o == sent, lambda o, _d: o == sent)


def model_recv(state, cfg):
    """Returns (new_state, expected) where expected is ('value', (k, copy)) | ('decode-error',)
    | ('auth-error',) | ('blocked',)."""
    sent, pending, inflight, queue, devs = state
    q = list(queue)
    while q:
        d = q.pop(0)
        c = sym_class(d, sent, cfg)
        if c == "skip":
            continue
        if c == "match":
            return (sent, False, inflight, tuple(q), devs), ("value", (d[0], d[1]))
        if c == "undecodable":
            return (sent, False, inflight, tuple(q), devs), ("decode-error",)
        if c == "report":
            return (sent, False, inflight, tuple(q), devs), ("auth-error",)
    return (sent, True, inflight, (), devs), ("blocked",)


def model_step(state, act, cfg):
    sent, pending, inflight, queue, devs = state
    a = act[0]
    if a == "send":
        d = (sent + 1, 0, None)
        return (sent + 1, True, tuple(sorted(inflight + (d,), key=repr)), queue, devs), None
    if a == "giveup":
        return (sent, False, inflight, queue, devs), None
    if a == "recv":
        return model_recv(state, cfg)
    d = act[1]
    lst = list(inflight)
    if a == "deliver":
        lst.remove(d)
        return (sent, pending, tuple(lst), queue + (d,), devs), None
    if a == "drop":
        lst.remove(d)
        return (sent, pending, tuple(lst), queue, devs), None
    if a == "dup":
        lst.append((d[0], 1, d[2]))
        return (sent, pending, tuple(sorted(lst, key=repr)), queue, devs + 1), None
    if a == "mut":
        lst.remove(d)
        lst.append((d[0], d[1], act[2]))
        return (sent, pending, tuple(sorted(lst, key=repr)), queue, devs + 1), None
    raise ValueError(act)


# ------------------------------------------------------------------ execution on the implementation


class Exec:
    """Replays a history on a fresh real client + agent socket."""

    def __init__(self, cfg):
        self.cfg = cfg
        self.w = drivers.SplitWorld(cfg)
        self.reqs = {}  # k -> Request (strictly decoded)
        self.sent = 0
        self.collision = False

    def close(self):
        self.w.close()

    def send(self):
        self.sent += 1
        o = self.w.send("get", rb.oid_str(OID + (self.sent,)))
        if o.kind != "ok":
            return ("send-failed", o.brief())
        data = self.w.take_request()
        if data is None:
            return ("nothing-sent",)
        self.reqs[self.sent] = drivers.open_request(self.cfg, data, strict=False, check_mac=False)
        return None

    def datagram(self, d):
        """Concrete bytes of descriptor d, built from the ids actually seen on the wire."""
        k, copy, m = d
        cfg = self.cfg
        req = self.reqs[k]
        value = rb.enc_int(k * 10 + copy)
        if (m or "").startswith("big"):
            value = rb.enc_octets(b"v" * 300)
        vb = [(OID + (k,), value)]
        if (m or "").startswith("req+"):
            vb = [(OID + (k,), rb.enc_null())]  # a request binds its OIDs to NULL
        rid, mid = self.concrete_ids(d)
        kw = {}
        if mid is not None and mid != req.msg_id:
            kw["msg_id"] = mid
        community = req.community
        version = req.version
        pdu_tag = rb.PDU_REPORT if (m or "").startswith("report") else (rb.PDU_GET if (m or "").startswith("req+") else rb.PDU_RESPONSE)
        if m == "comm-case":
            community = community[:1].swapcase() + community[1:]
        elif m == "comm-prefix":
            community = community[:-1]
        elif m == "comm-empty":
            community = b""
        elif m == "comm-longer":
            community = community + b"x"
        elif m == "comm+256":
            community = community + b"x" * 256
        elif m == "version-other":
            version = 1 - version
        elif m == "version-3":
            version = 3
        elif m == "user-other":
            kw["user"] = cfg.user + "x"
        elif m == "user-empty":
            kw["user"] = ""
        elif m == "engine-other":
            kw["engine_id"] = cfg.engine_id[:-1] + bytes([cfg.engine_id[-1] ^ 1])
        elif m == "engine-longer":
            kw["engine_id"] = cfg.engine_id + b"\x05\x06"
        elif m == "engine-empty":
            kw["engine_id"] = b"\x00"  # placeholder replaced below
        if req.version in (0, 1):
            pdu = rb.build_pdu(pdu_tag, rid, 0, 0, vb)
            if m == "version-3":
                msg = rb.tlv(0x30, rb.enc_int(3) + rb.enc_octets(community) + pdu)
            else:
                msg = rb.build_community_msg(version, community, pdu)
        else:
            if m == "engine-empty":
                # authoritative engine id absent from the USM header
                kw.pop("engine_id")
                kw.pop("msg_id", None)
                pdu = rb.build_pdu(pdu_tag, rid, 0, 0, vb)
                scoped = rb.build_scoped(cfg.engine_id, b"", pdu)
                msg = _seal_with_engine(cfg, req, scoped, b"")
            else:
                msg = drivers.reply_for(cfg, req, vb, pdu_tag=pdu_tag, request_id=rid, **kw)
            if m == "version-1":
                msg = _rewrite_version(msg, 1)
        if m is not None and m.endswith("len84"):
            msg = _outer_len84(cfg, msg)
        if m is not None and m.startswith("big/trunc-"):
            msg = msg[: int(m[-1])]
        if m == "trunc-1":
            msg = msg[:-1]
        elif m == "trunc-half":
            msg = msg[: len(msg) // 2]
        elif m == "trunc-all":
            msg = b""
        return msg

    def concrete_ids(self, d):
        """(request-id, msgID) actually carried by descriptor d."""
        k, _, m = d
        req = self.reqs[k]
        rid, mid = req.request_id, req.msg_id
        if m is None:
            return rid, mid
        body = m[len("report+") :] if m.startswith("report+") else m
        if body.startswith("req+"):
            body = body[4:]
        body = body.split("/")[0]
        adj = {"rid+1": 1, "rid-1": -1, "rid+2^32": 1 << 32, "rid-2^32": -(1 << 32), "rid-2^31": -(1 << 31)}
        if body == "rid0":
            rid = 0
        elif body in adj:
            rid += adj[body]
        elif body == "rid|2^31":
            rid |= 1 << 31
        elif body.startswith("rid=r"):
            rid = self.reqs[int(body[5:])].request_id
        elif body == "msgid+1":
            mid += 1
        elif body == "msgid+2^32":
            mid += 1 << 32
        elif body == "msgid|2^31":
            mid |= 1 << 31
        elif body.startswith("msgid=r"):
            mid = self.reqs[int(body[7:])].msg_id
        return rid, mid

    def concrete_class(self, d):
        """Classification from the ids actually on the wire (guards against random id collisions)."""
        last = self.reqs[self.sent]
        rid, mid = self.concrete_ids(d)
        return classify(d, self.cfg, lambda o, _d: rid == last.request_id, lambda o, _d: mid == last.msg_id)

    def deliver(self, d):
        self.w.inject(self.datagram(d))

    def recv(self):
        return self.w.recv("get")


def _seal_with_engine(cfg, req, scoped, engine_id):
    # plain (no auth/priv) message with a chosen authoritative engine id
    usm = rb.build_usm(engine_id, req.boots, req.time, cfg.user, b"", b"")
    return rb.build_v3(req.msg_id, 0, usm, scoped)


def _outer_len84(cfg, msg):
    """The same message with the length of the outer SEQUENCE written as 84 xx xx xx xx (MAC recomputed when there is one)."""
    top = rb.parse_tlv(msg, 0, len(msg))
    body = msg[top.cstart : top.end]
    out = bytes([msg[0], 0x84]) + len(body).to_bytes(4, "big") + body
    if cfg.version == "v3" and cfg.auth:
        from .. import refcrypto

        t = rb.parse_tlv(out, 0, len(out), False)
        f = rb.parse_seq(out, t.cstart, t.end)  # version, header, security parameters (OCTET STRING), data
        usm_top = rb.parse_tlv(out, f[2].cstart, f[2].end)
        uf = rb.parse_seq(out, usm_top.cstart, usm_top.end)
        off = uf[4].cstart
        engine_id = out[uf[0].cstart : uf[0].end]
        zeroed = out[:off] + b"\x00" * 12 + out[off + 12 :]
        mac = refcrypto.mac_of_message(cfg.auth, cfg.auth_kul(engine_id), zeroed, off)
        out = out[:off] + mac + out[off + 12 :]
    return out


def _rewrite_version(msg, v):
    # the version INTEGER is the first element of the top-level SEQUENCE
    top = rb.parse_tlv(msg, 0, len(msg))
    first = rb.parse_tlv(msg, top.cstart, top.end)
    return msg[: first.cstart] + bytes([v]) + msg[first.end :]


def observed_kind(out):
    mod, fast = drivers.subject()
    if out.kind == "ok":
        v = out.value
        if isinstance(v, int) and not isinstance(v, bool):
            return ("value", (v // 10, v % 10))
        return ("value", repr(v))
    if isinstance(out.exc, BlockingIOError):
        return ("blocked",)
    if isinstance(out.exc, fast.SnmpDecodeError):
        return ("decode-error",)
    if isinstance(out.exc, fast.SnmpAuthError):
        return ("auth-error",)
    return ("exception", out.exc_name, str(out.exc)[:80])


def execute(cfg, history, final_act):
    """Replay history then perform final_act (a client action) on the implementation.

    Returns (observed, expected_concrete, collision) for a recv; (error or None, None, False) for send.
    The expected outcome is computed by scanning the real queue contents with concrete ids.
    """
    ex = Exec(cfg)
    try:
        queue = []
        for act in history + [final_act]:
            a = act[0]
            last = act is final_act
            if a == "send":
                err = ex.send()
                if err:
                    return err, None, False
                if last:
                    return None, None, False
            elif a == "deliver":
                ex.deliver(act[1])
                queue.append(act[1])
            elif a == "recv":
                exp = ("blocked",)
                consumed = 0
                for d in queue:
                    consumed += 1
                    c = ex.concrete_class(d)
                    if c == "skip":
                        continue
                    if c == "match":
                        exp = ("value", (d[0], d[1]))
                    elif c == "undecodable":
                        exp = ("decode-error",)
                    else:
                        exp = ("auth-error",)
                    break
                out = ex.recv()
                queue = queue[consumed:]
                if last:
                    return observed_kind(out), exp, False
            # giveup / drop / dup / mut: harness-only
        return None, None, False
    finally:
        ex.close()


# ------------------------------------------------------------------ search


def expand(chunk):
    """chunk: list of (cfg_desc, K, D, reduced, history, state). Returns successors + checks."""
    res = common.Result()
    res["succ"] = []
    for cfg_desc, K, D, reduced, history, state in chunk:
        cfg = Cfg.from_desc(cfg_desc)
        history = [tuple(a) if not isinstance(a, tuple) else a for a in history]
        muts = muts_for(cfg, reduced)
        for act in actions(state, K, D, muts):
            nstate, expected = model_step(state, act, cfg)
            res.count("transitions")
            if act[0] in ("send", "recv"):
                obs, exp_conc, _ = execute(cfg, history, act)
                res.count("impl_executions")
                if act[0] == "send":
                    if obs is not None:
                        res.violation(
                            "%s/send-failed" % cfg.name,
                            "send failed after history: %r" % (obs,),
                            {"cfg": cfg_desc, "history": history, "act": act},
                        )
                        continue
                else:
                    res.outcome(obs[0])
                    if exp_conc != expected:
                        # random id collision made the symbolic and concrete models differ
                        res.count("id_collisions")
                        continue
                    if obs != expected:
                        sig = "%s/%s -> %s" % (cfg.name, _explain(state, expected), obs[0] if obs[0] != "value" else "value%r" % (obs[1],))
                        # reproducibility: run twice more
                        again = [execute(cfg, history, act)[0] for _ in range(2)]
                        if any(o != obs for o in again):
                            res["machinery"].append("non-reproducible observation %r vs %r for %r" % (obs, again, history))
                            continue
                        res.violation(
                            sig,
                            "after history %s the receive call produced %r, reference model expects %r"
                            % (_fmt(history), obs, expected),
                            {"cfg": cfg_desc, "history": history, "act": act, "expected": expected},
                        )
                        continue
                    if len(res["samples"]) < 2 and len(history) > 5:
                        res.sample({"history": _fmt(history + [act]), "observed": obs})
            res["succ"].append((nstate, history + [act]))
    return res


def _explain(state, expected):
    sent, pending, inflight, queue, devs = state
    qs = ",".join("r%d%s%s" % (d[0], "'" if d[1] else "", ("[" + d[2] + "]") if d[2] else "") for d in queue)
    return "outstanding=r%d queue=[%s] expected=%s" % (sent, qs, expected[0] if expected[0] != "value" else "value%r" % (expected[1],))


def _fmt(history):
    out = []
    for a in history:
        if len(a) == 1:
            out.append(a[0])
        else:
            d = a[1]
            s = "r%d%s%s" % (d[0], "'" if d[1] else "", ("[" + d[2] + "]") if d[2] else "")
            out.append("%s(%s%s)" % (a[0], s, ("->" + a[2]) if len(a) > 2 else ""))
    return " ".join(out)


def search(rec, cfg, K, D, reduced, state_cap):
    cfg_desc = cfg.describe()
    import hashlib

    def key(st):
        return hashlib.blake2b(repr(st).encode(), digest_size=12).digest()

    visited = {key(initial())}
    frontier = [([], initial())]
    depth = 0
    total_states = 1
    while frontier:
        depth += 1
        chunks = []
        size = max(1, min(400, len(frontier) // 64 + 1))
        for i in range(0, len(frontier), size):
            chunks.append([(cfg_desc, K, D, reduced, h, s) for h, s in frontier[i : i + size]])
        nxt = []
        lp = common.log_path(PROPERTY)

        def on_failure(f):
            rec.machinery_errors.append("worker failure: %s %s" % (f.kind, f.detail[-500:]))

        from .. import pool

        for _, res in pool.run(expand, chunks, timeout=600, log_path=lp, on_failure=on_failure):
            succ = res.pop("succ")
            rec.merge(res)
            for nstate, hist in succ:
                k = key(nstate)
                if k not in visited:
                    visited.add(k)
                    nxt.append((hist, nstate))
        total_states = len(visited)
        if rec.violations and depth > 3:
            # keep going one more level only; a broken tree explodes otherwise
            pass
        if total_states > state_cap:
            rec.cap("state cap %d reached at depth %d for %s K=%d D=%d" % (state_cap, depth, cfg.name, K, D))
            break
        if len(rec.violations) >= 25:
            rec.cap("stopped after 25 distinct violation signatures")
            break
        frontier = nxt
    return total_states, depth


# ------------------------------------------------------------------ public clients
# The BFS above drives the `_fast` split API. The blocking receive loop of the sync client (one Rust call that
# skips datagrams until the deadline) and the reader loop of the asyncio client are different code in front of
# the same matching rules, so the same faults are also enumerated through both public clients: K consecutive
# get() calls; the agent answers request k with a scripted list of datagrams (genuine reply, nothing, an extra
# copy, a late copy of an earlier reply, one rewritten datagram before or after the genuine one).

PUB_MUTS_COMMUNITY = ["rid+1", "rid+1/len84", "len84", "big/trunc-2", "big/trunc-3", "rid+2^32", "rid=r*", "comm-case", "comm+256", "version-other", "trunc-1", "trunc-all", "req+rid+1"]
PUB_MUTS_V3 = ["rid+1", "rid+1/len84", "big/trunc-2", "rid=r*", "msgid+1", "msgid=r*", "user-other", "engine-longer", "trunc-1", "trunc-all", "report", "report+msgid=r*"]


def pub_scripts(cfg, K, D, bases="one-drop"):
    """All scripts (list per request of descriptors) with at most D extra datagrams."""
    muts = PUB_MUTS_V3 if cfg.version == "v3" else PUB_MUTS_COMMUNITY
    if bases == "one-drop":
        base_sets = [tuple(True for _ in range(K))] + [tuple(j != i for j in range(K)) for i in range(K)]
    else:
        import itertools

        base_sets = list(itertools.product((True, False), repeat=K))

    def extras(k):
        out = [(k, 1, None)]
        out += [(j, 1, None) for j in range(1, k)]
        for m in muts:
            if m.endswith("=r*"):
                out += [(k, 0, m[:-1] + str(j)) for j in range(1, k)]
            else:
                out.append((k, 0, m))
        return out

    def place_from(script, d_left, k0, pos0):
        yield [list(x) for x in script]
        if d_left == 0:
            return
        for k in range(k0, K + 1):
            cur = script[k - 1]
            for pos in range(pos0 if k == k0 else 0, len(cur) + 1):
                for e in extras(k):
                    nxt = [list(x) for x in script]
                    nxt[k - 1] = cur[:pos] + [e] + cur[pos:]
                    yield from place_from(nxt, d_left - 1, k, pos + 1)

    seen = set()
    for base in base_sets:
        script = [[(k, 0, None)] if base[k - 1] else [] for k in range(1, K + 1)]
        for sc in place_from(script, D, 1, 0):
            key = repr(sc)
            if key not in seen:
                seen.add(key)
                yield sc


class PubExec(Exec):
    """Exec's datagram builder / classifier without the split world."""

    def __init__(self, cfg):  # noqa: super().__init__ opens a SplitWorld, not wanted here
        self.cfg = cfg
        self.reqs = {}
        self.sent = 0


def pub_observed(out):
    mod, fast = drivers.subject()
    if out.kind == "ok":
        v = out.value
        if isinstance(v, tuple) and len(v) == 2:  # (oid, value) from an iterator
            v = v[1] if v[0] == rb.oid_str(OID + (v[1] // 10,)) else v
        if isinstance(v, int) and not isinstance(v, bool):
            return ("value", (v // 10, v % 10))
        return ("value", repr(v))
    if isinstance(out.exc, TimeoutError):
        return ("blocked",)
    if isinstance(out.exc, fast.SnmpDecodeError):
        return ("decode-error",)
    if isinstance(out.exc, fast.SnmpAuthError):
        return ("auth-error",)
    return ("exception", out.exc_name, str(out.exc)[:80])


def pub_execute(cfg, driver, script, tmo, op="get"):
    """Run the K calls (get(), or K steps of one getnext / getbulk(max_repetitions=1) iterator; an iterator is not asked again after an exception). Returns (observed list, expected list of sets, n_requests, agent errors)."""
    K = len(script)
    ex = PubExec(cfg)
    script = [[_tup(d) for d in lst] for lst in script]

    def responder(data, idx):
        k = idx + 1
        if k > K:
            return []
        ex.reqs[k] = drivers.open_request(cfg, data, strict=False, check_mac=False)
        return [ex.datagram(d) for d in script[k - 1]]

    outs = []
    if driver == "sync":
        w = drivers.SyncWorld(cfg, responder, timeout=tmo)
        try:
            if op == "get":
                for k in range(1, K + 1):
                    outs.append(drivers.call(w.session.get, rb.oid_str(OID + (k,))))
            else:
                it = iter(w.session.getnext(rb.oid_str(OID)) if op == "getnext" else w.session.getbulk(rb.oid_str(OID), max_repetitions=1))
                for k in range(1, K + 1):
                    outs.append(drivers.call(next, it))
                    if outs[-1].kind != "ok":
                        break
            import time as _t

            _t.sleep(0.01)
            errs, nreq = list(w.errors), len(w.requests)
        finally:
            w.close()
    else:

        async def client(session):
            res = []
            it = None
            if op != "get":
                it = (session.getnext(rb.oid_str(OID)) if op == "getnext" else session.getbulk(rb.oid_str(OID), max_repetitions=1)).__aiter__()
            for k in range(1, K + 1):
                try:
                    if it is None:
                        res.append(drivers.Outcome("ok", await session.get(rb.oid_str(OID + (k,)))))
                    else:
                        res.append(drivers.Outcome("ok", await it.__anext__()))
                except Exception as e:  # noqa: BLE001
                    res.append(drivers.Outcome("exc", exc=e))
                    if it is not None:
                        break
            return res

        out, reqs, errs = drivers.run_async(cfg, responder, client, timeout=tmo)
        if out.kind != "ok":
            outs = [out]
        else:
            outs = out.value
        nreq = len(reqs)
    observed = [pub_observed(o) for o in outs]
    # reference: scan what the client socket holds, with the ids actually on the wire; a client that empties its
    # socket before a new request is equally correct, so both readings are acceptable
    expected = []
    leftover = []
    if all(k in ex.reqs for k in range(1, nreq + 1)):
        for k in range(1, min(K, nreq) + 1):
            ex.sent = k
            alts = set()
            for queue, track in ((leftover + script[k - 1], True), (list(script[k - 1]), False)):
                exp = ("blocked",)
                consumed = 0
                for d in queue:
                    consumed += 1
                    c = ex.concrete_class(d)
                    if c == "skip":
                        continue
                    exp = {"match": ("value", (d[0], d[1])), "undecodable": ("decode-error",), "report": ("auth-error",)}[c]
                    break
                alts.add(exp)
                if track:
                    nxt_left = queue[consumed:]
            leftover = nxt_left
            expected.append(alts)
    return observed, expected, nreq, errs


def pub_case_holds(case, tmo):
    cfg = Cfg.from_desc(case["cfg"])
    observed, expected, nreq, errs = pub_execute(cfg, case["driver"], case["script"], tmo, case.get("op", "get"))
    if errs:
        raise drivers.MachineryError("agent error: %s" % errs[:2])
    K = len(observed)
    expected = expected[:K] if nreq == K else expected
    if nreq != K or len(expected) != K:
        return False, observed, expected, "%d calls put %d requests on the wire" % (K, nreq)
    for k in range(K):
        if observed[k] not in expected[k]:
            return False, observed, expected, "call %d produced %r, reference model allows %r" % (k + 1, observed[k], sorted(expected[k]))
    return True, observed, expected, ""


def _fmt_script(script):
    return " | ".join(
        ",".join("r%d%s%s" % (d[0], "'" if d[1] else "", ("[" + d[2] + "]") if d[2] else "") for d in lst) or "-" for lst in script
    )


def pub_work(chunk):
    res = common.Result()
    for case in chunk:
        ok, observed, expected, why = pub_case_holds(case, 0.08)
        res.count("public_scripts")
        res.count("public_calls", len(case["script"]))
        for o in observed:
            res.outcome("public:" + o[0])
        if not ok:
            # real timers: repeat twice with a generous time-out before judging
            again = [pub_case_holds(case, 0.6) for _ in range(2)]
            if any(a[0] for a in again):
                res.count("public_retried_ok")
                continue
            cfg = Cfg.from_desc(case["cfg"])
            k = next((i for i in range(len(observed)) if i >= len(expected) or observed[i] not in expected[i]), 0)
            sig = "public-%s-%s/%s/call%d after [%s] -> %s" % (
                case["driver"],
                case.get("op", "get"),
                cfg.name,
                k + 1,
                _fmt_script(case["script"]),
                observed[k][0] if observed[k][0] != "value" else "value%r" % (observed[k][1],),
            )
            res.violation(sig, "%s client, %s, agent script %s: %s" % (case["driver"], case.get("op", "get"), _fmt_script(case["script"]), again[-1][3] or why), case)
        elif len(res["samples"]) < 1 and sum(len(x) for x in case["script"]) > len(case["script"]):
            res.sample({"driver": case["driver"], "script": _fmt_script(case["script"]), "observed": observed})
    return res


FORCED_DRAWS = [0, 1, 2, 0x7FFFFFFF, 0x80000000, 0x80000001, 0xFFFFFFFF, 0x100000000, 1 << 63, (1 << 64) - 1]


def forced_work(chunk):
    """Two consecutive requests whose random draws are chosen through the RNG seam (boundary values, in every ordered pair whose
    low 31 bits differ): the late reply to the first must not be taken for the reply to the second. (A random 31-bit collision
    is excused elsewhere; with chosen draws a repeated id is the library's doing.)"""
    res = common.Result()
    mod, fast = drivers.subject()
    force = getattr(fast, "_verif_rng_force", None)
    for case in chunk:
        if force is None:
            res.count("forced_seam_absent")
            continue
        cfg = Cfg.from_desc(case["cfg"])
        d1, d2 = case["draws"]
        ex = Exec(cfg)
        try:
            force([d1, d1 ^ 0x5555])
            e1 = ex.send()
            force([d2, d2 ^ 0x3333])
            e2 = ex.send()
            force([])
            res.count("forced_pairs")
            res.count("impl_executions")
            if e1 or e2:
                res.violation("forced-draws/%s/send-failed" % cfg.name, "send failed with forced draws %#x, %#x: %r" % (d1, d2, e1 or e2), case)
                continue
            ex.deliver((1, 0, None))  # the reply to request 1 arrives while request 2 is outstanding
            out = observed_kind(ex.recv())
            res.outcome("forced:" + out[0])
            if out[0] == "value":
                r1, r2 = ex.reqs[1], ex.reqs[2]
                res.violation(
                    "forced-draws/%s/late reply to the previous request delivered" % cfg.name,
                    "draws %#x then %#x: requests went out with request-ids %s and %s (msgIDs %s, %s); the reply to the first was delivered as the answer to the second"
                    % (d1, d2, r1.request_id, r2.request_id, r1.msg_id, r2.msg_id),
                    case,
                )
        finally:
            force([])
            ex.close()
    return res


def forced_cases(tier):
    for cfg in (Cfg("v1"), Cfg("v2c"), Cfg("v3"), Cfg("v3", auth=2, priv=2)):
        for d1 in FORCED_DRAWS:
            for d2 in FORCED_DRAWS:
                if (d1 & 0x7FFFFFFF) != (d2 & 0x7FFFFFFF):
                    yield {"forced": True, "cfg": cfg.describe(), "draws": [d1, d2], "class": "forced-draws/%s" % cfg.name}


def pub_cases(tier):
    G, N, B = "get", "getnext", "getbulk"
    if tier == "quick":
        plan = [
            ("sync", G, Cfg("v2c"), 3, 1),
            ("sync", G, Cfg("v3", auth=2, priv=2), 3, 1),
            ("async", G, Cfg("v1"), 3, 1),
            ("async", G, Cfg("v3"), 3, 1),
            ("sync", N, Cfg("v1"), 3, 1),
            ("sync", B, Cfg("v3"), 3, 1),
            ("async", N, Cfg("v3", auth=1, priv=1), 3, 1),
            ("async", B, Cfg("v2c"), 3, 1),
        ]
    else:
        plan = []
        for drv in ("sync", "async"):
            for cfg in (Cfg("v1"), Cfg("v2c"), Cfg("v3"), Cfg("v3", auth=2, priv=2), Cfg("v3", auth=1, priv=1)):
                for op in (G, N, B):
                    if not (op == B and cfg.version == "v1"):
                        plan.append((drv, op, cfg, 3, 1))
            for op in (G, N, B):
                plan.append((drv, op, Cfg("v2c"), 3, 2))
                plan.append((drv, op, Cfg("v3", auth=2, priv=2), 2, 2))
                plan.append((drv, op, Cfg("v2c"), 4, 1))
    for drv, op, cfg, K, D in plan:
        desc = cfg.describe()
        for sc in pub_scripts(cfg, K, D):
            yield {"public": True, "driver": drv, "op": op, "cfg": desc, "script": sc, "class": "public-%s-%s/%s" % (drv, op, cfg.name)}


def replay(case):
    common.prepare_stage()
    if case.get("forced"):
        r = forced_work([case])
        return {"problems": [v[1] for v in r["violations"]], "holds": not r["violations"]}
    if case.get("public"):
        ok, observed, expected, why = pub_case_holds(case, 0.6)
        return {"script": _fmt_script(case["script"]), "observed": observed, "expected": [sorted(e) for e in expected], "holds": ok, "why": why}
    cfg = Cfg.from_desc(case["cfg"])
    hist = [_tup(a) for a in case["history"]]
    act = _tup(case["act"])
    obs, exp, _ = execute(cfg, hist, act)
    return {"history": _fmt(hist + [act]), "observed": obs, "expected": exp, "holds": obs == exp}


def _tup(a):
    return tuple(tuple(x) if isinstance(x, list) else x for x in a)


def run(tier):
    common.prepare_stage()
    rec = common.Recorder(PROPERTY, tier, LEVEL, MODULE)
    rec.rule = (
        "breadth-first search over (requests sent, outstanding?, in-flight multiset, socket queue, deviations used); "
        "actions: send next request, receive, give up, deliver any in-flight datagram, drop, duplicate, rewrite one field "
        "(request-id +-1 / +-2^32 / |2^31 / := id of another request, community case/prefix/empty/longer, version, msgID, user, "
        "engine id, Report), truncate. distinct_nontrivial = distinct canonical states."
    )
    rec.assume(
        "a state's future depends only on its fingerprint (ids are symbolic; concrete ids are re-read from the wire in every execution)",
        "one kernel datagram queue per client socket, FIFO on loopback",
        "random 31-bit id collisions are detected from the concrete ids and such executions are skipped (counted)",
    )
    F, R = False, True  # full / reduced rewrite alphabet
    if tier == "quick":
        plan = [
            (Cfg("v2c"), 3, 1, F, 200000),
            (Cfg("v2c"), 3, 2, R, 200000),
            (Cfg("v1"), 3, 1, F, 200000),
            (Cfg("v3"), 3, 1, F, 200000),
            (Cfg("v3"), 2, 2, R, 200000),
            (Cfg("v3", auth=2, priv=2), 2, 1, F, 200000),
        ]
    else:
        plan = [
            (Cfg("v2c"), 3, 2, F, 3000000),
            (Cfg("v2c"), 4, 2, R, 3000000),
            (Cfg("v2c"), 4, 3, R, 12000000),
            (Cfg("v1"), 3, 2, F, 3000000),
            (Cfg("v1"), 4, 2, R, 3000000),
            (Cfg("v3"), 3, 2, F, 3000000),
            (Cfg("v3"), 4, 2, R, 3000000),
            (Cfg("v3", auth=2, priv=2), 3, 2, R, 3000000),
            (Cfg("v3", auth=1, priv=1), 3, 1, F, 3000000),
        ]
    states = 0
    bounds = []
    for cfg, K, D, reduced, cap in plan:
        n, depth = search(rec, cfg, K, D, reduced, cap)
        states += n
        bounds.append(
            {"config": cfg.name, "requests": K, "deviations": D, "alphabet": "reduced" if reduced else "full", "states": n, "depth": depth}
        )
    rec.extra["bounds_completed"] = bounds
    common.run_cases(rec, forced_work, list(forced_cases(tier)), chunk=24)
    pcases = list(pub_cases(tier))
    common.run_cases(rec, pub_work, pcases, chunk=12, nproc=48, timeout=600, case_timeout=60)
    rec.extra["public_client_scripts"] = {
        "scripts": rec.counters.get("public_scripts", 0),
        "calls": rec.counters.get("public_calls", 0),
        "repeated_because_of_a_real_timer": rec.counters.get("public_retried_ok", 0),
        "bound": "K = 3 calls (get(), or steps of one getnext / getbulk iterator), at most 1 extra datagram per script (thorough: 2, and K = 4), replies to at most one request dropped; an iterator is not asked again after an exception",
    }
    pub_calls = rec.counters.get("public_calls", 0)
    return rec.finish(
        evaluations=rec.counters["impl_executions"] + pub_calls,
        distinct_nontrivial=states,
        states=states,
        transitions=rec.counters["transitions"] + pub_calls,
        traces=rec.counters["impl_executions"] + rec.counters.get("public_scripts", 0),
    )
