"""C10 - unauthenticated or forged v3 replies are never accepted.

The full forgery product of the property: an otherwise matching reply (user, engine id, msgID,
request-id all correct) x MAC class x auth flag x priv flag/ciphertext x body x digest x cipher x
pending operation, each followed by the genuine reply to check that the wait survives.
"""

import itertools
import os

from .. import common, drivers, refber as rb, refcrypto, values
from ..drivers import Cfg

PROPERTY = "C10"
LEVEL = "fault_enumeration"
MODULE = __name__

MAC_CLASSES = ["valid", "zero", "random", "absent", "short", "long", "wrong-key"] + ["bit%d" % i for i in range(96)]
SYS = (1, 3, 6, 1, 2, 1, 1, 5, 0)


def forge(cfg, req, mac, flag_auth, flag_priv, body, seed, walk=False, form="consistent"):
    """Build the forged reply."""
    if body == "GetResponse":
        oid = req.oids[0] if req.oids else SYS
        if walk:
            oid = oid + (1,)
        pdu = rb.build_pdu(rb.PDU_RESPONSE, req.request_id, 0, 0, [(oid, rb.enc_octets(b"FORGED"))])
    else:
        pdu = rb.build_pdu(rb.PDU_REPORT, req.request_id, 0, 0, [((1, 3, 6, 1, 6, 3, 15, 1, 1, 5, 0), values.v_unsigned("counter32", 1).tlv)])
    scoped = rb.build_scoped(cfg.engine_id, b"", pdu)
    flags = (1 if flag_auth else 0) | (2 if flag_priv else 0)
    data = scoped
    priv_params = b""
    encrypt = flag_priv if form == "consistent" else (not flag_priv)
    if encrypt and cfg.priv:
        salt = b"\x00\x00\x00\x02frg!"
        data = rb.enc_octets(refcrypto.usm_encrypt(cfg.priv, cfg.priv_kul(), req.boots, req.time, salt, scoped))
        priv_params = salt
    if mac == "absent":
        auth_params = b""
    elif mac == "short":
        auth_params = b"\x00" * 6
    elif mac == "long":
        auth_params = b"\x00" * 16
    else:
        auth_params = b"\x00" * 12
    usm = rb.build_usm(cfg.engine_id, req.boots, req.time, cfg.user, auth_params, priv_params)
    msg = rb.build_v3(req.msg_id, flags, usm, data)
    r = rb.parse_message(msg)
    off = r.auth_off
    if mac in ("absent", "short", "long", "zero"):
        return msg
    good = refcrypto.mac_of_message(cfg.auth, cfg.auth_kul(), msg, off)
    if mac == "valid":
        m = good
    elif mac == "random":
        m = bytes((seed * 37 + i * 11 + 5) & 0xFF for i in range(12))
        if m == good:
            m = bytes(12)
    elif mac == "wrong-key":
        m = refcrypto.mac_of_message(cfg.auth, refcrypto.localize(cfg.auth, b"k" * refcrypto.KEYLEN[cfg.auth], cfg.engine_id), msg, off)
    else:
        bit = int(mac[3:])
        m = bytearray(good)
        m[bit // 8] ^= 0x80 >> (bit % 8)
        m = bytes(m)
    return msg[:off] + m + msg[off + 12 :]


def must_deliver(cfg, mac, flag_auth, flag_priv, body, form="consistent"):
    """True: must be delivered; False: must be dropped; None: either (Reports may be accepted unauthenticated)."""
    authentic = flag_auth and mac == "valid"
    if form != "consistent":
        # msgFlags and msgData disagree: a response whose body is in clear must be dropped when privacy is
        # configured, whatever the flags claim; ciphertext under a cleared priv flag may go either way
        in_clear = bool(flag_priv)
        if body == "GetResponse" and (in_clear or not authentic):
            return False
        return None
    if body == "Report":
        if authentic and (flag_priv or not cfg.priv):
            return True
        return None
    if not authentic:
        return False
    if cfg.priv and not flag_priv:
        return False
    return True


def run_case(case, worlds):
    mod, fast = drivers.subject()
    cfg = Cfg.from_desc(case["cfg"])
    op = case["op"]
    w = worlds.get(cfg.name)
    if w is None:
        w = worlds[cfg.name] = drivers.SplitWorld(cfg)
    it = None
    if op == "get":
        o = w.send("get", rb.oid_str(SYS))
    elif op == "getnext":
        it = fast.GetIter("1.3.6.1.2.1.1")
        o = w.send("getnext", it=it)
    elif op == "getbulk":
        it = fast.GetIter("1.3.6.1.2.1.1", 5)
        o = w.send("getbulk", it=it)
    elif op == "get_many":
        o = w.send("get_many", [rb.oid_str(SYS)])
    else:
        o = w.send("refresh")
    if o.kind != "ok":
        raise drivers.MachineryError("send failed %r" % (o.brief(),))
    req = drivers.open_request(cfg, w.take_request())
    forged = forge(cfg, req, case["mac"], case["flag_auth"], case["flag_priv"], case["body"], case.get("seed", 1), walk=op in ("getnext", "getbulk"), form=case.get("form", "consistent"))
    w.inject(forged)
    out1 = w.recv(op, it)
    # the genuine reply afterwards
    oid = req.oids[0] + (2,) if req.oids and op in ("getnext", "getbulk") else (req.oids[0] if req.oids else SYS)
    genuine = drivers.reply_for(cfg, req, [(oid, rb.enc_octets(b"GENUINE"))] if op != "refresh" else [], pdu_tag=rb.PDU_RESPONSE if op != "refresh" else rb.PDU_REPORT)
    w.inject(genuine)
    out2 = w.recv(op, it)
    w.flush_client_queue()
    return out1, out2


def classify_out(out, op):
    mod, fast = drivers.subject()
    if out.kind == "ok":
        v = out.value
        s = repr(v)
        if "FORGED" in s:
            return "delivered-forged"
        if "GENUINE" in s:
            return "delivered-genuine"
        if op == "refresh" and v is None:
            return "refresh-done"
        return "value:%s" % s[:30]
    if isinstance(out.exc, BlockingIOError):
        return "skipped"
    if isinstance(out.exc, fast.SnmpAuthError):
        return "auth-error"
    if isinstance(out.exc, StopAsyncIteration):
        return "stop"
    return "exc:" + out.exc_name


def work(chunk):
    res = common.Result()
    worlds = {}
    for case in chunk:
        cfg = Cfg.from_desc(case["cfg"])
        out1, out2 = run_case(case, worlds)
        res.count("forgeries")
        res.count("api_calls", 3)
        res.distinct()
        c1, c2 = classify_out(out1, case["op"]), classify_out(out2, case["op"])
        res.outcome(c1)
        want = must_deliver(cfg, case["mac"], case["flag_auth"], case["flag_priv"], case["body"], case.get("form", "consistent"))
        macc = case["mac"] if not case["mac"].startswith("bit") else "bitflip"
        sig_tail = ("flags-body-mismatch/" if case.get("form", "consistent") != "consistent" else "") + "%s/%s-%s/mac=%s/auth=%d/priv=%d/%s" % (
            case["op"],
            drivers.AUTH_NAMES[cfg.auth],
            drivers.PRIV_NAMES[cfg.priv],
            macc,
            case["flag_auth"],
            case["flag_priv"],
            case["body"],
        )
        accepted = c1 not in ("skipped",)
        if out1.kind == "exc" and out1.is_panic():
            res.violation("panic/" + sig_tail, "forged reply raised %s" % out1.exc_name, case)
            continue
        if want is False and accepted:
            res.violation(
                "accepted-forgery/" + sig_tail,
                "reply with MAC class %s, auth flag %d, priv flag %d (%s) was not dropped: %s" % (case["mac"], case["flag_auth"], case["flag_priv"], case["body"], c1),
                case,
            )
        elif want is True and not accepted:
            res.violation("dropped-authentic/" + sig_tail, "authentic reply was dropped (%s)" % c1, case)
        elif want is True and case["body"] == "GetResponse" and c1 != "delivered-forged" and case["op"] != "refresh":
            res.violation("authentic-not-delivered/" + sig_tail, "authentic reply produced %s" % c1, case)
        if not accepted:
            # the wait must survive the rejected forgery
            good = c2 in ("delivered-genuine", "refresh-done") or (case["op"] == "refresh" and c2 in ("refresh-done",))
            if not good:
                res.violation("wait-not-survived/" + sig_tail, "after the rejected forgery the genuine reply produced %s" % c2, case)
        if len(res["samples"]) < 2 and case["mac"] == "bit17":
            res.sample({"case": {k: v for k, v in case.items() if k != "cfg"}, "cfg": cfg.name, "forgery_outcome": c1, "genuine_outcome": c2})
    for w in worlds.values():
        w.close()
    return res


def gen_cases(tier):
    thorough = tier == "thorough"
    for auth, priv in itertools.product((1, 2), (0, 1, 2)):
        cfg = Cfg("v3", auth=auth, priv=priv)
        for op in ("get", "getnext", "refresh") + (("getbulk", "get_many") if thorough else ()):
            for body in ("GetResponse", "Report"):
                for flag_auth, flag_priv in itertools.product((1, 0), (1, 0) if priv else (0,)):
                    for mac in MAC_CLASSES:
                        if not flag_auth and mac not in ("valid", "zero", "absent", "random"):
                            continue
                        if mac.startswith("bit") and not thorough and (op != "get" or body != "GetResponse") and int(mac[3:]) % 13:
                            continue
                        yield {"cfg": cfg.describe(), "op": op, "body": body, "flag_auth": flag_auth, "flag_priv": flag_priv, "mac": mac}
                        if priv and mac in ("valid", "zero", "absent") :
                            yield {"cfg": cfg.describe(), "op": op, "body": body, "flag_auth": flag_auth, "flag_priv": flag_priv, "mac": mac, "form": "mismatch"}
    # noAuth sessions: nothing to verify, plain replies are delivered
    cfg = Cfg("v3")
    for op in ("get", "refresh"):
        yield {"cfg": cfg.describe(), "op": op, "body": "GetResponse", "flag_auth": 0, "flag_priv": 0, "mac": "absent", "noauth": True}


def replay(case):
    common.prepare_stage()
    out1, out2 = run_case(case, {})
    return {"forgery": classify_out(out1, case["op"]), "genuine": classify_out(out2, case["op"])}


def must_deliver_noauth(case):
    return True


def run(tier):
    common.prepare_stage()
    rec = common.Recorder(PROPERTY, tier, LEVEL, MODULE)
    rec.rule = (
        "otherwise-matching reply x MAC in {valid, zero, random, wrong key, absent, short, long, each of the 96 single-bit flips} x auth flag x priv flag (ciphertext / plaintext) x "
        "{GetResponse, Report} x {MD5,SHA1} x {none,DES,AES} x pending operation, each followed by the genuine reply. Non-trivial: every case (all are distinct forgeries)."
    )
    rec.assume(
        "a GetResponse must be delivered iff flagged auth with a valid MAC and (when privacy is configured) encrypted; Reports may be accepted unauthenticated (either outcome passes)",
        "msgFlags / msgData mismatches: a response whose body is in clear must be dropped when privacy is configured whatever the priv flag says; ciphertext under a cleared priv flag may be delivered or dropped",
        "timeliness (RFC 3414 time window) is outside the property",
    )
    cases = [c for c in gen_cases(tier) if not c.get("noauth")]
    common.run_cases(rec, work, cases, chunk=150)
    n = rec.counters["forgeries"]
    return rec.finish(evaluations=n, distinct_nontrivial=rec.distinct_n)
