"""C10 - unauthenticated or forged v3 replies are never accepted.

The full forgery product of the property: an otherwise matching reply (user, engine id, msgID,
request-id all correct) x MAC class x auth flag x priv flag/ciphertext x body x digest x cipher x
pending operation, each followed by the genuine reply to check that the wait survives.
"""

import itertools
import os

from .. import common, drivers, refber as rb, refcrypto, values
from ..drivers import Cfg

PROPERTY = "C10"
LEVEL = "fault_enumeration"
MODULE = __name__

MAC_CLASSES = ["valid", "zero", "random", "absent", "short", "long", "wrong-key"] + ["bit%d" % i for i in range(96)]
SYS = (1, 3, 6, 1, 2, 1, 1, 5, 0)


def forge(cfg, req, mac, flag_auth, flag_priv, body, seed, walk=False, form="consistent", reportable=False):
    """Build the forged reply."""
    if body == "GetResponse":
        oid = req.oids[0] if req.oids else SYS
        if walk:
            oid = oid + (1,)
        pdu = rb.build_pdu(rb.PDU_RESPONSE, req.request_id, 0, 0, [(oid, rb.enc_octets(b"FORGED"))])
    else:
        pdu = rb.build_pdu(rb.PDU_REPORT, req.request_id, 0, 0, [((1, 3, 6, 1, 6, 3, 15, 1, 1, 5, 0), values.v_unsigned("counter32", 1).tlv)])
    scoped = rb.build_scoped(cfg.engine_id, b"", pdu)
    flags = (1 if flag_auth else 0) | (2 if flag_priv else 0) | (4 if reportable else 0)
    data = scoped
    priv_params = b""
    encrypt = flag_priv if form == "consistent" else (not flag_priv)
    if encrypt and cfg.priv:
        salt = b"\x00\x00\x00\x02frg!"
        data = rb.enc_octets(refcrypto.usm_encrypt(cfg.priv, cfg.priv_kul(), req.boots, req.time, salt, scoped))
        priv_params = salt
    if mac == "absent":
        auth_params = b""
    elif mac == "short":
        auth_params = b"\x00" * 6
    elif mac == "long":
        auth_params = b"\x00" * 16
    else:
        auth_params = b"\x00" * 12
    usm = rb.build_usm(cfg.engine_id, req.boots, req.time, cfg.user, auth_params, priv_params)
    msg = rb.build_v3(req.msg_id, flags, usm, data)
    r = rb.parse_message(msg)
    off = r.auth_off
    if mac in ("absent", "short", "long", "zero"):
        return msg
    good = refcrypto.mac_of_message(cfg.auth, cfg.auth_kul(), msg, off)
    if mac == "valid":
        m = good
    elif mac == "random":
        m = bytes((seed * 37 + i * 11 + 5) & 0xFF for i in range(12))
        if m == good:
            m = bytes(12)
    elif mac == "wrong-key":
        m = refcrypto.mac_of_message(cfg.auth, refcrypto.localize(cfg.auth, b"k" * refcrypto.KEYLEN[cfg.auth], cfg.engine_id), msg, off)
    elif mac.startswith("xor"):
        # several octets changed so that the differences cancel under XOR / sum (a folded comparison would accept)
        parts = [int(x) for x in mac[3:].split("-")]
        m = bytearray(good)
        if len(parts) == 3:
            i, j, mask = parts
            m[i] ^= mask
            m[j] ^= mask
        else:
            i, j, k, a, b = parts
            m[i] ^= a
            m[j] ^= b
            m[k] ^= a ^ b
        m = bytes(m)
    elif mac.startswith("sum"):
        i, j, d = [int(x) for x in mac[3:].split("-")]
        m = bytearray(good)
        m[i] = (m[i] + d) & 0xFF
        m[j] = (m[j] - d) & 0xFF
        m = bytes(m)
    else:
        bit = int(mac[3:])
        m = bytearray(good)
        m[bit // 8] ^= 0x80 >> (bit % 8)
        m = bytes(m)
    return msg[:off] + m + msg[off + 12 :]


def must_deliver(cfg, mac, flag_auth, flag_priv, body, form="consistent"):
    """True: must be delivered; False: must be dropped; None: either (Reports may be accepted unauthenticated)."""
    authentic = flag_auth and mac == "valid"
    if form != "consistent":
        # msgFlags and msgData disagree: a response whose body is in clear must be dropped when privacy is
        # configured, whatever the flags claim; ciphertext under a cleared priv flag may go either way
        in_clear = bool(flag_priv)
        if body == "GetResponse" and (in_clear or not authentic):
            return False
        return None
    if body == "Report":
        if authentic and (flag_priv or not cfg.priv):
            return True
        return None
    if not authentic:
        return False
    if cfg.priv and not flag_priv:
        return False
    return True


def run_case(case, worlds):
    mod, fast = drivers.subject()
    cfg = Cfg.from_desc(case["cfg"])
    op = case["op"]
    w = worlds.get(cfg.name)
    if w is None:
        w = worlds[cfg.name] = drivers.SplitWorld(cfg)
    it = None
    if op == "get":
        o = w.send("get", rb.oid_str(SYS))
    elif op == "getnext":
        it = fast.GetIter("1.3.6.1.2.1.1")
        o = w.send("getnext", it=it)
    elif op == "getbulk":
        it = fast.GetIter("1.3.6.1.2.1.1", 5)
        o = w.send("getbulk", it=it)
    elif op == "get_many":
        o = w.send("get_many", [rb.oid_str(SYS)])
    else:
        o = w.send("refresh")
    if o.kind != "ok":
        raise drivers.MachineryError("send failed %r" % (o.brief(),))
    req = drivers.open_request(cfg, w.take_request(), strict=False, check_mac=False)
    forged = forge(cfg, req, case["mac"], case["flag_auth"], case["flag_priv"], case["body"], case.get("seed", 1), walk=op in ("getnext", "getbulk"), form=case.get("form", "consistent"), reportable=case.get("reportable", False))
    w.inject(forged)
    out1 = w.recv(op, it)
    # the genuine reply afterwards
    oid = req.oids[0] + (2,) if req.oids and op in ("getnext", "getbulk") else (req.oids[0] if req.oids else SYS)
    genuine = drivers.reply_for(cfg, req, [(oid, rb.enc_octets(b"GENUINE"))] if op != "refresh" else [], pdu_tag=rb.PDU_RESPONSE if op != "refresh" else rb.PDU_REPORT)
    w.inject(genuine)
    out2 = w.recv(op, it)
    w.flush_client_queue()
    return out1, out2


def classify_out(out, op):
    mod, fast = drivers.subject()
    if out.kind == "ok":
        v = out.value
        s = repr(v)
        if "FORGED" in s:
            return "delivered-forged"
        if "GENUINE" in s:
            return "delivered-genuine"
        if op == "refresh" and v is None:
            return "refresh-done"
        return "value:%s" % s[:30]
    if isinstance(out.exc, BlockingIOError):
        return "skipped"
    if isinstance(out.exc, fast.SnmpAuthError):
        return "auth-error"
    if isinstance(out.exc, StopAsyncIteration):
        return "stop"
    return "exc:" + out.exc_name


def work(chunk):
    res = common.Result()
    worlds = {}
    for case in chunk:
        cfg = Cfg.from_desc(case["cfg"])
        out1, out2 = run_case(case, worlds)
        res.count("forgeries")
        res.count("api_calls", 3)
        res.distinct()
        c1, c2 = classify_out(out1, case["op"]), classify_out(out2, case["op"])
        res.outcome(c1)
        want = must_deliver(cfg, case["mac"], case["flag_auth"], case["flag_priv"], case["body"], case.get("form", "consistent"))
        macc = case["mac"] if not case["mac"].startswith("bit") else "bitflip"
        if macc.startswith("xor") or macc.startswith("sum"):
            macc = "cancelling-" + macc[:3]
        sig_tail = ("flags-body-mismatch/" if case.get("form", "consistent") != "consistent" else "") + ("reportable-flag/" if case.get("reportable") else "") + "%s/%s-%s/mac=%s/auth=%d/priv=%d/%s" % (
            case["op"],
            drivers.AUTH_NAMES[cfg.auth],
            drivers.PRIV_NAMES[cfg.priv],
            macc,
            case["flag_auth"],
            case["flag_priv"],
            case["body"],
        )
        accepted = c1 not in ("skipped",)
        if out1.kind == "exc" and out1.is_panic():
            res.violation("panic/" + sig_tail, "forged reply raised %s" % out1.exc_name, case)
            continue
        if want is False and accepted:
            res.violation(
                "accepted-forgery/" + sig_tail,
                "reply with MAC class %s, auth flag %d, priv flag %d (%s) was not dropped: %s" % (case["mac"], case["flag_auth"], case["flag_priv"], case["body"], c1),
                case,
            )
        elif want is True and not accepted:
            res.violation("dropped-authentic/" + sig_tail, "authentic reply was dropped (%s)" % c1, case)
        elif want is True and case["body"] == "GetResponse" and c1 != "delivered-forged" and case["op"] != "refresh":
            res.violation("authentic-not-delivered/" + sig_tail, "authentic reply produced %s" % c1, case)
        if not accepted:
            # the wait must survive the rejected forgery
            good = c2 in ("delivered-genuine", "refresh-done") or (case["op"] == "refresh" and c2 in ("refresh-done",))
            if not good:
                res.violation("wait-not-survived/" + sig_tail, "after the rejected forgery the genuine reply produced %s" % c2, case)
        if len(res["samples"]) < 2 and case["mac"] == "bit17":
            res.sample({"case": {k: v for k, v in case.items() if k != "cfg"}, "cfg": cfg.name, "forgery_outcome": c1, "genuine_outcome": c2})
    for w in worlds.values():
        w.close()
    return res


# ------------------------------------------------------------------ keys an attacker can guess, discovery routes


GUESS_KEYS = ["zero-key", "zero-master@eid", "zero-master@empty", "password-as-key"]


def guess_key(cfg, name, eid):
    n = refcrypto.KEYLEN[cfg.auth]
    if name == "zero-key":
        return bytes(n)
    if name == "zero-master@eid":
        return refcrypto.localize(cfg.auth, bytes(n), eid)
    if name == "zero-master@empty":
        return refcrypto.localize(cfg.auth, bytes(n), b"")
    return (cfg.user.encode() * n)[:n]


class EmptyEidCfg(Cfg):
    """The session is created with its real user and keys but without an engine id (low-level use of the socket)."""

    def make_raw_socket(self, port, timeout_ns=0):
        mod, fast = drivers.subject()
        eid, user, a_alg, a_key, p_alg, p_key = self.raw_args()
        return fast.SnmpV3ClientSocket("127.0.0.1:%d" % port, b"", user, a_alg, a_key, p_alg, p_key, 0, 0, 0, timeout_ns)


def forged_with_key(cfg, msg_id, request_id, eid, boots, time, key, encrypt):
    pdu = rb.build_pdu(rb.PDU_RESPONSE, request_id, 0, 0, [(SYS, rb.enc_octets(b"FORGED"))])
    scoped = rb.build_scoped(eid, b"", pdu)
    data, priv_params = scoped, b""
    if encrypt:
        priv_params = b"\x00\x00\x00\x02frg!"
        data = rb.enc_octets(refcrypto.usm_encrypt(cfg.priv, key[:16], boots, time, priv_params, scoped))
    usm = rb.build_usm(eid, boots, time, cfg.user, bytes(12), priv_params)
    msg = rb.build_v3(msg_id, 1 | (2 if encrypt else 0), usm, data)
    off = rb.parse_message(msg).auth_off
    return msg[:off] + refcrypto.mac_of_message(cfg.auth, key, msg, off) + msg[off + 12 :]


def run_route(case):
    """Discovery routes on the raw socket, then a reply whose MAC (and ciphertext) is made with a key anybody can compute."""
    mod, fast = drivers.subject()
    cfg0 = Cfg.from_desc(case["cfg"])
    force = getattr(fast, "_verif_rng_force", None)
    route = case["route"]
    real_eid = cfg0.engine_id
    if route == "failed-set-keys":
        return run_failed_set_keys(case)
    if route == "after-signed-stale":
        return run_after_signed_stale(case)
    if route in ("replayed-mac", "retired-key"):
        return run_replay_or_retired(case)
    report_eid = b"" if case["report_eid"] == "empty" else real_eid
    if route == "raw-empty-eid":
        cfg = EmptyEidCfg.from_desc(case["cfg"])
        cfg.__class__ = EmptyEidCfg
    else:
        d = dict(case["cfg"])
        d["discover"] = True
        cfg = Cfg.from_desc(d)
    w = drivers.SplitWorld(cfg)
    try:
        o = w.send("refresh")
        data = w.take_request()
        if o.kind != "ok" or data is None:
            raise drivers.MachineryError("discovery probe not sent: %r" % (o.brief(),))
        r = rb.parse_message(data, strict=False)
        anon = Cfg("v3", user="", engine_id=real_eid)
        vb = [((1, 3, 6, 1, 6, 3, 15, 1, 1, 4, 0), values.v_unsigned("counter32", 1).tlv)]
        pdu = rb.build_pdu(rb.PDU_REPORT, 0, 0, 0, vb)
        usm = rb.build_usm(report_eid, 7, 100, r.user, b"", b"")
        w.inject(rb.build_v3(r.msg_id, 0, usm, rb.build_scoped(report_eid, b"", pdu)))
        w.recv("refresh")
        if route == "set-keys":
            eid, user, a_alg, a_key, p_alg, p_key = cfg.raw_args(report_eid)
            drivers.call(w.sock.set_keys, user, a_alg, a_key, p_alg, p_key)
        rid, mid = 0x1234567, 0x2345678
        if force:
            force([rid, mid])
        o = w.send("get", rb.oid_str(SYS))
        if force:
            force([])
        data = w.take_request()
        if o.kind != "ok" or data is None:
            return "not-sent", None
        if route == "in-flight":
            # the request left under the anonymous discovery user; the keys are installed while it is in flight;
            # then a reply without any authentication arrives
            eid, user, a_alg, a_key, p_alg, p_key = cfg.raw_args(report_eid)
            drivers.call(w.sock.set_keys, user, a_alg, a_key, p_alg, p_key)
            q = rb.parse_message(data, strict=False)
            for uname in (cfg.user, ""):
                pdu = rb.build_pdu(rb.PDU_RESPONSE, q.request_id if q.request_id is not None else rid, 0, 0, [(SYS, rb.enc_octets(b"FORGED"))])
                w.inject(rb.build_v3(q.msg_id, 0, rb.build_usm(q.engine_id or real_eid, q.boots, q.time, uname, b"", b""), rb.build_scoped(q.engine_id or real_eid, b"", pdu)))
                out = w.recv("get")
                if classify_out(out, "get") != "skipped":
                    break
            return classify_out(out, "get"), out
        q = rb.parse_message(data, strict=False)
        if q.request_id is not None:
            rid = q.request_id
        elif not force:
            return "no-seam", None
        forged = forged_with_key(cfg, q.msg_id, rid, q.engine_id, q.boots, q.time, guess_key(cfg, case["key"], q.engine_id), bool(cfg.priv) and case["encrypt"])
        w.inject(forged)
        out = w.recv("get")
        return classify_out(out, "get"), out
    finally:
        w.close()


def run_after_signed_stale(case):
    """Within one receive call: first a genuinely signed message that is skipped for another reason (late duplicate
    with a stale msgID / foreign request-id), then a reply with no authentication at all and matching ids."""
    mod, fast = drivers.subject()
    cfg = Cfg.from_desc(case["cfg"])
    w = drivers.SplitWorld(cfg)
    try:
        o = w.send("get", rb.oid_str(SYS))
        req = drivers.open_request(cfg, w.take_request(), strict=False, check_mac=False)
        if case["key"] == "stale-msgid":
            stale = drivers.reply_for(cfg, req, [(SYS, rb.enc_octets(b"STALE"))], msg_id=(req.msg_id + 1) & 0x7FFFFFFF)
        else:
            stale = drivers.reply_for(cfg, req, [(SYS, rb.enc_octets(b"STALE"))], request_id=(req.request_id + 1) & 0x7FFFFFFF)
        pdu = rb.build_pdu(rb.PDU_RESPONSE, req.request_id, 0, 0, [(SYS, rb.enc_octets(b"FORGED"))])
        forged = rb.build_v3(req.msg_id, 0, rb.build_usm(cfg.engine_id, req.boots, req.time, cfg.user, b"", b""), rb.build_scoped(cfg.engine_id, b"", pdu))
        for k in range(case.get("stale_count", 1)):
            w.agent.sendto(stale, w.addr)
        w.inject(forged)
        out = w.recv("get")
        if classify_out(out, "get") == "skipped" and not w.client_queue_empty():
            out = w.recv("get")
        return classify_out(out, "get"), out
    finally:
        w.close()


def run_replay_or_retired(case):
    """replayed-mac: request 1 gets its genuine reply; the reply forged for request 2 carries the 12 MAC octets of that
    genuine reply (copied from the wire). retired-key: the session's keys are replaced by set_keys(); a reply signed
    with the *previous* auth key answers the next request."""
    mod, fast = drivers.subject()
    cfg = Cfg.from_desc(case["cfg"])
    w = drivers.SplitWorld(cfg)
    try:
        o = w.send("get", rb.oid_str(SYS))
        req1 = drivers.open_request(cfg, w.take_request(), strict=False, check_mac=False)
        genuine1 = drivers.reply_for(cfg, req1, [(SYS, rb.enc_octets(b"GENUINE"))])
        w.inject(genuine1)
        out = w.recv("get")
        if out.kind != "ok":
            return "genuine-lost", out
        if case["route"] == "retired-key":
            new = Cfg("v3", auth=cfg.auth, priv=cfg.priv, auth_pass=b"rotated-auth", priv_pass=b"rotated-priv", engine_id=cfg.engine_id)
            eid, user, a_alg, a_key, p_alg, p_key = new.raw_args()
            o = drivers.call(w.sock.set_keys, user, a_alg, a_key, p_alg, p_key)
            if o.kind != "ok":
                return "not-sent", None
        else:
            new = cfg
        o = w.send("get", rb.oid_str(SYS))
        req2 = drivers.open_request(new, w.take_request(), strict=False, check_mac=False)
        pdu = rb.build_pdu(rb.PDU_RESPONSE, req2.request_id, 0, 0, [(SYS, rb.enc_octets(b"FORGED"))])
        if case["route"] == "retired-key":
            forged = drivers.seal_reply(cfg, req2.msg_id, cfg.engine_id, req2.boots, req2.time, rb.build_scoped(cfg.engine_id, b"", pdu))
        else:
            r1 = rb.parse_message(genuine1, strict=False)
            body = drivers.seal_reply(cfg, req2.msg_id, cfg.engine_id, req2.boots, req2.time, rb.build_scoped(cfg.engine_id, b"", pdu))
            r2 = rb.parse_message(body, strict=False)
            forged = body[: r2.auth_off] + r1.auth_params + body[r2.auth_off + 12 :]
        w.inject(forged)
        out = w.recv("get")
        return classify_out(out, "get"), out
    finally:
        w.close()


def run_failed_set_keys(case):
    """A session holding real keys; a key installation that is refused; then a reply made with a guessable key."""
    mod, fast = drivers.subject()
    cfg = Cfg.from_desc(case["cfg"])
    force = getattr(fast, "_verif_rng_force", None)
    w = drivers.SplitWorld(cfg)
    try:
        eid, user, a_alg, a_key, p_alg, p_key = cfg.raw_args()
        need = refcrypto.KEYLEN[cfg.auth]
        how = case["how"]
        if how == "authlen":
            a_alg, a_key = (cfg.auth | (drivers.KT_LOCALIZED << 6)), bytes(range(1, need))
        elif how == "privlen":
            p_alg, p_key = (cfg.priv | (drivers.KT_LOCALIZED << 6)), bytes(range(1, need - 3))
        elif how == "privempty":
            p_alg, p_key = cfg.priv, b""
        else:
            p_alg = 3
        o = drivers.call(w.sock.set_keys, user, a_alg, a_key, p_alg, p_key)
        if o.kind == "ok":
            return "not-refused", None
        rid, mid = 0x1234567, 0x2345678
        if force:
            force([rid, mid])
        o = w.send("get", rb.oid_str(SYS))
        if force:
            force([])
        data = w.take_request()
        if o.kind != "ok" or data is None:
            return "not-sent", None
        q = rb.parse_message(data, strict=False)
        if q.request_id is not None:
            rid = q.request_id
        elif not force:
            return "no-seam", None
        forged = forged_with_key(cfg, q.msg_id, rid, q.engine_id, q.boots, q.time, guess_key(cfg, case["key"], q.engine_id), bool(cfg.priv) and case["encrypt"])
        w.inject(forged)
        out = w.recv("get")
        return classify_out(out, "get"), out
    finally:
        w.close()


def run_lost_probe(case):
    """Public client, engine id discovered, the very first datagram lost, the application retries; then a reply without
    any authentication (flags 0) that matches user, engine id, msgID and request-id."""
    cfg = Cfg.from_desc(case["cfg"])
    eid = cfg.engine_id
    state = {"n": 0}

    def forger(data, idx=None):
        state["n"] += 1
        if state["n"] == 1:
            return []
        r = rb.parse_message(data, strict=False)
        if not r.engine_id:
            vb = [((1, 3, 6, 1, 6, 3, 15, 1, 1, 4, 0), values.v_unsigned("counter32", 1).tlv)]
            pdu = rb.build_pdu(rb.PDU_REPORT, 0, 0, 0, vb)
            return [rb.build_v3(r.msg_id, 0, rb.build_usm(eid, 7, 100, b"", b"", b""), rb.build_scoped(eid, b"", pdu))]
        rid = r.request_id if r.request_id is not None else 0
        if r.pdu_tag == rb.PDU_GET and not r.oids:
            vb = [((1, 3, 6, 1, 6, 3, 15, 1, 1, 2, 0), values.v_unsigned("counter32", 2).tlv)]
            if cfg.auth and r.flags & 1:
                try:
                    req = drivers.open_request(cfg, data, strict=False, check_mac=False)
                    return [drivers.reply_for(cfg, req, vb, pdu_tag=rb.PDU_REPORT, boots=7, time=101, flags=1)]
                except Exception:  # noqa: BLE001
                    return []
            pdu = rb.build_pdu(rb.PDU_REPORT, rid, 0, 0, vb)
            return [rb.build_v3(r.msg_id, 0, rb.build_usm(eid, 7, 101, r.user, b"", b""), rb.build_scoped(eid, b"", pdu))]
        pdu = rb.build_pdu(rb.PDU_RESPONSE, rid, 0, 0, [(SYS, rb.enc_octets(b"FORGED"))])
        return [rb.build_v3(r.msg_id, 0, rb.build_usm(eid, 7, 102, r.user, b"", b""), rb.build_scoped(eid, b"", pdu))]

    if case["driver"] == "sync":
        w = drivers.SyncWorld(cfg, forger, timeout=0.4)
        try:
            s = w.session
            o = drivers.call(s.__enter__)
            if o.kind != "ok":
                o = drivers.call(s.refresh)
            out = drivers.call(s.get, rb.oid_str(SYS))
        finally:
            w.close()
    else:

        async def client(s):
            try:
                await s.__aenter__()
            except Exception:  # noqa: BLE001
                await s.refresh()
            return await s.get(rb.oid_str(SYS))

        out, reqs, errs = drivers.run_async(cfg, forger, client, timeout=0.4)
    return classify_out(out, "get"), out


def run_tail_tamper(case):
    """A genuine, correctly sealed large reply (captured on the wire, say) with one octet changed at a given offset:
    the MAC covers the whole message, so it must be dropped wherever the change is."""
    mod, fast = drivers.subject()
    cfg = Cfg.from_desc(case["cfg"])
    w = drivers.SplitWorld(cfg)
    try:
        o = w.send("get", rb.oid_str(SYS))
        req = drivers.open_request(cfg, w.take_request(), strict=False, check_mac=False)
        genuine = drivers.reply_for(cfg, req, [(SYS, rb.enc_octets(b"G" * case["n"]))])
        worst = "skipped"
        for off in case["offsets"]:
            pos = off if off >= 0 else len(genuine) + off
            if not 0 <= pos < len(genuine):
                continue
            r = rb.parse_message(genuine, strict=False)
            if r.auth_off <= pos < r.auth_off + 12:
                continue
            t = genuine[:pos] + bytes([genuine[pos] ^ 0x20]) + genuine[pos + 1 :]
            w.inject(t)
            out = w.recv("get")
            c = classify_out(out, "get")
            if out.kind == "ok":
                return "delivered-tampered@%d" % pos, out
            if out.kind == "exc" and out.is_panic():
                return "panic", out
            w.flush_client_queue()
        w.inject(genuine)
        out = w.recv("get")
        if not (out.kind == "ok" and out.value == b"G" * case["n"]):
            return "genuine-lost", out
        return worst, None
    finally:
        w.close()


def work_routes(chunk):
    res = common.Result()
    for case in chunk:
        cfg = Cfg.from_desc(case["cfg"])
        if case["kind"] == "tail-tamper":
            c1, out = run_tail_tamper(case)
            res.count("forgeries", len(case["offsets"]))
            res.count("api_calls", len(case["offsets"]) + 2)
            res.distinct(len(case["offsets"]))
            res.outcome(c1.split("@")[0])
            sig = "tampered-genuine/%s-%s/%d-octet-value" % (drivers.AUTH_NAMES[cfg.auth], drivers.PRIV_NAMES[cfg.priv], case["n"])
            if c1.startswith("delivered-tampered"):
                res.violation("accepted-forgery/" + sig, "a correctly sealed reply with one octet changed at offset %s was delivered" % c1.split("@")[1], case)
            elif c1 == "genuine-lost":
                res.violation("dropped-authentic/" + sig, "the untouched reply was not delivered: %r" % (out.brief() if out else None,), case)
            elif c1 == "panic":
                res.violation("panic/" + sig, "tampered reply raised %s" % out.exc_name, case)
            continue
        if case["kind"] == "route":
            c1, out = run_route(case)
            sig = "guessable-key/%s/report-eid-%s/%s-%s/key=%s%s" % (case["route"], case["report_eid"], drivers.AUTH_NAMES[cfg.auth], drivers.PRIV_NAMES[cfg.priv], case["key"], "/encrypted" if case["encrypt"] and cfg.priv else "")
            what = "reply authenticated with the key '%s' after discovery via %s (Report engine id %s)" % (case["key"], case["route"], case["report_eid"])
        else:
            c1, out = run_lost_probe(case)
            sig = "lost-probe/%s/%s-%s" % (case["driver"], drivers.AUTH_NAMES[cfg.auth], drivers.PRIV_NAMES[cfg.priv])
            what = "first discovery datagram lost, refresh retried, then a reply with msgFlags 0 and no MAC"
        res.count("forgeries")
        res.count("api_calls", 4)
        res.distinct()
        res.outcome(c1)
        if c1 == "no-seam":
            res["caps"].append("RNG seam absent: encrypted requests of the discovery routes cannot be matched")
            continue
        if out is not None and out.kind == "exc" and out.is_panic():
            res.violation("panic/" + sig, "%s raised %s" % (what, out.exc_name), case)
        elif c1 == "delivered-forged" or c1.startswith("value:"):
            res.violation("accepted-forgery/" + sig, "%s was delivered: %s" % (what, c1), case)
    return res


def gen_routes(tier):
    for auth, priv in ((1, 0), (2, 0), (1, 1), (2, 2)):
        for kt in (0, 1):
            cfg = Cfg("v3", auth=auth, priv=priv, key_type=kt)
            for route, report_eid in (("raw-empty-eid", "real"), ("raw-empty-eid", "empty"), ("set-keys", "real"), ("set-keys", "empty")):
                for key in GUESS_KEYS:
                    for encrypt in (True, False) if priv else (False,):
                        yield {"kind": "route", "cfg": cfg.describe(), "route": route, "report_eid": report_eid, "key": key, "encrypt": encrypt}
            yield {"kind": "route", "cfg": cfg.describe(), "route": "in-flight", "report_eid": "real", "key": "none", "encrypt": False}
            yield {"kind": "route", "cfg": cfg.describe(), "route": "replayed-mac", "report_eid": "real", "key": "mac-of-an-earlier-reply", "encrypt": False}
            yield {"kind": "route", "cfg": cfg.describe(), "route": "retired-key", "report_eid": "real", "key": "previous-auth-key", "encrypt": False}
            for which in ("stale-msgid", "stale-rid"):
                for cnt in (1, 2):
                    yield {"kind": "route", "cfg": cfg.describe(), "route": "after-signed-stale", "report_eid": "real", "key": which, "encrypt": False, "stale_count": cnt}
            for how in ("authlen", "privlen", "privempty", "privalg"):
                if not priv and how != "authlen":
                    continue
                for key in GUESS_KEYS[:2]:
                    for encrypt in (True, False) if priv else (False,):
                        yield {"kind": "route", "cfg": cfg.describe(), "route": "failed-set-keys", "report_eid": "real", "key": key, "encrypt": encrypt, "how": how}
    for driver in ("sync", "async"):
        for auth, priv in ((1, 0), (2, 0), (2, 2)):
            cfg = Cfg("v3", auth=auth, priv=priv, discover=True)
            yield {"kind": "lost-probe", "driver": driver, "cfg": cfg.describe()}
    # genuine replies of growing size with one octet changed at offsets spread over the whole datagram
    for auth, priv in ((1, 0), (2, 0), (1, 1), (2, 2)):
        cfg = Cfg("v3", auth=auth, priv=priv)
        for n in (10, 900, 1950, 2100, 3000, 3900):
            offs = sorted(set([5, 20, 60, 100] + list(range(120, n + 100, max(1, n // 12))) + [-1, -2, -9, -17, -40, -100]))
            yield {"kind": "tail-tamper", "cfg": cfg.describe(), "n": n, "offsets": offs}


def gen_cases(tier):
    thorough = tier == "thorough"
    for auth, priv in itertools.product((1, 2), (0, 1, 2)):
        cfg = Cfg("v3", auth=auth, priv=priv)
        for op in ("get", "getnext", "refresh") + (("getbulk", "get_many") if thorough else ()):
            for body in ("GetResponse", "Report"):
                for flag_auth, flag_priv in itertools.product((1, 0), (1, 0) if priv else (0,)):
                    for mac in MAC_CLASSES:
                        if not flag_auth and mac not in ("valid", "zero", "absent", "random"):
                            continue
                        if mac.startswith("bit") and not thorough and (op != "get" or body != "GetResponse") and int(mac[3:]) % 13:
                            continue
                        yield {"cfg": cfg.describe(), "op": op, "body": body, "flag_auth": flag_auth, "flag_priv": flag_priv, "mac": mac}
                        if mac in ("valid", "zero", "absent", "random") and op in ("get", "refresh"):
                            # the reportableFlag bit (0x04) of msgFlags set on the reply: it changes nothing
                            yield {"cfg": cfg.describe(), "op": op, "body": body, "flag_auth": flag_auth, "flag_priv": flag_priv, "mac": mac, "reportable": True}
                        if priv and mac in ("valid", "zero", "absent") :
                            yield {"cfg": cfg.describe(), "op": op, "body": body, "flag_auth": flag_auth, "flag_priv": flag_priv, "mac": mac, "form": "mismatch"}
    # MACs whose differences from the valid one cancel out (pairs / triples of octets)
    cancel = ["xor%d-%d-%d" % (i, j, mask) for i in range(12) for j in range(i + 1, 12) for mask in (0x01, 0x80, 0xFF)]
    cancel += ["xor%d-%d-%d-%d-%d" % (i, (i + 5) % 12, (i + 9) % 12, 0x0F, 0x3C) for i in range(12)]
    cancel += ["sum%d-%d-%d" % (i, (i + 7) % 12, d) for i in range(12) for d in (1, 0x80)]
    for auth, priv in itertools.product((1, 2), (0, 1, 2)):
        cfg = Cfg("v3", auth=auth, priv=priv)
        for mac in cancel if thorough or priv != 1 else cancel[::3]:
            yield {"cfg": cfg.describe(), "op": "get", "body": "GetResponse", "flag_auth": 1, "flag_priv": 1 if priv else 0, "mac": mac}
    # noAuth sessions: nothing to verify, plain replies are delivered
    cfg = Cfg("v3")
    for op in ("get", "refresh"):
        yield {"cfg": cfg.describe(), "op": op, "body": "GetResponse", "flag_auth": 0, "flag_priv": 0, "mac": "absent", "noauth": True}


def replay(case):
    common.prepare_stage()
    if case.get("kind") == "route":
        return {"outcome": run_route(case)[0]}
    if case.get("kind") == "lost-probe":
        return {"outcome": run_lost_probe(case)[0]}
    if case.get("kind") == "tail-tamper":
        return {"outcome": run_tail_tamper(case)[0]}
    out1, out2 = run_case(case, {})
    return {"forgery": classify_out(out1, case["op"]), "genuine": classify_out(out2, case["op"])}


def must_deliver_noauth(case):
    return True


def run(tier):
    common.prepare_stage()
    rec = common.Recorder(PROPERTY, tier, LEVEL, MODULE)
    rec.rule = (
        "otherwise-matching reply x MAC in {valid, zero, random, wrong key, absent, short, long, each of the 96 single-bit flips, octet pairs / triples whose differences cancel under XOR or sum} x auth flag x priv flag (ciphertext / plaintext) x "
        "{GetResponse, Report} x {MD5,SHA1} x {none,DES,AES} x pending operation, each followed by the genuine reply; after engine-id discovery by 4 routes (socket created without engine id / set_keys after discovery x Report carrying the real or an EMPTY engine id; keys installed while a request sent under the anonymous user is in flight, then a reply with msgFlags 0; a refused set_keys on a session holding keys, then a reply under a guessable key; a genuinely signed but non-matching message followed, within the same receive call, by a reply with no authentication; the reportableFlag bit set on forged replies; the MAC of an earlier genuine reply replayed on a forged one; a reply signed with the key that set_keys() has just replaced; genuine replies of 10..3900-octet values with one octet changed at offsets spread over the datagram) "
        "a reply authenticated (and encrypted) under each key anybody can compute {all-zero, zero master localized to the engine id / to the empty id, user name}; public clients with the first discovery datagram lost, "
        "refresh retried, then a reply with msgFlags 0. Non-trivial: every case (all are distinct forgeries)."
    )
    rec.assume(
        "a GetResponse must be delivered iff flagged auth with a valid MAC and (when privacy is configured) encrypted; Reports may be accepted unauthenticated (either outcome passes)",
        "msgFlags / msgData mismatches: a response whose body is in clear must be dropped when privacy is configured whatever the priv flag says; ciphertext under a cleared priv flag may be delivered or dropped",
        "timeliness (RFC 3414 time window) is outside the property",
    )
    cases = [c for c in gen_cases(tier) if not c.get("noauth")]
    common.run_cases(rec, work, cases, chunk=150)
    common.run_cases(rec, work_routes, list(gen_routes(tier)), chunk=8)
    n = rec.counters["forgeries"]
    return rec.finish(evaluations=n, distinct_nontrivial=rec.distinct_n)
