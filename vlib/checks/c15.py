"""C15 - everything the library encodes, it decodes back unchanged and minimally (Rust explorer)."""

from .. import common, rsx

PROPERTY = "C15"
LEVEL = "model_checking"
MODULE = __name__


def replay(case):
    return rsx.replay(case)


def run(tier):
    rec = common.Recorder(PROPERTY, tier, LEVEL, MODULE)
    rec.rule = (
        "every i64 with 1..3 content octets (-2^23..2^23-1), every value within +-2^%d of every +-2^(8k-1) and +-2^(8k) (k=1..8); OIDs of 2..5 arcs over 16 boundary arcs and of "
        "2..128 arcs; NULL; OCTET STRING fields at the length-form boundaries; v1/v2c/v3 Get/GetNext/GetBulk messages over 38 boundary integers rotated through every integer field x 9 OID "
        "lists (127/128/255/256-octet OIDs) x 6 community/user/engine-id lengths x v3 flag sets; message size sweep: k ordinary OIDs + one OID of L arcs for every k until the message no longer fits the buffer (v1/v2c/v3 x 3 PDU types); privacy layer: PrivKey::encrypt of scoped PDUs with 0..39 OIDs + one of 2..18 arcs (every residue mod 8 / 16), decrypted back by a second key object (DES, AES). Each: push_ber == independent minimal encoding, library decoder returns the value with "
        "nothing left, strict reference decoder accepts it. All cases distinct." % (20 if tier == "thorough" else 14)
    )
    rec.assume("reference codec rs/src/refber.rs written from X.690, sharing no code with the crate; release arithmetic (overflow-checks off) as in production")
    rep = rsx.run("c15", tier, rec)
    n = rec.counters["rsx_evaluations"]
    return rec.finish(evaluations=max(n, 1), distinct_nontrivial=max(n, 2), states=max(n, 1), transitions=max(2 * n, 1), traces=n)
