"""Evidence, violations, known findings, replay files."""

import hashlib
import json
import os
import subprocess
import sys
import time
from collections import Counter

VERIF = os.path.dirname(os.path.dirname(os.path.abspath(__file__)))
EVIDENCE_DIR = os.path.join(VERIF, "evidence")
REPLAY_DIR = os.path.join(VERIF, "replays")
KNOWN_FILE = os.path.join(VERIF, "known_findings.json")
SCHEMA = "/root/.vp/EVIDENCE.schema.json"


def jsonable(x):
    if isinstance(x, (bytes, bytearray)):
        return {"hex": bytes(x).hex()}
    if isinstance(x, dict):
        return {str(k): jsonable(v) for k, v in x.items()}
    if isinstance(x, (list, tuple)):
        return [jsonable(v) for v in x]
    if isinstance(x, float):
        if x != x:
            return "nan"
        if x in (float("inf"), float("-inf")):
            return "inf" if x > 0 else "-inf"
        return x
    if isinstance(x, (str, int, bool)) or x is None:
        return x
    return repr(x)


def unjson(x):
    if isinstance(x, dict):
        if set(x.keys()) == {"hex"}:
            return bytes.fromhex(x["hex"])
        return {k: unjson(v) for k, v in x.items()}
    if isinstance(x, list):
        return [unjson(v) for v in x]
    return x


def load_known():
    try:
        with open(KNOWN_FILE) as f:
            return json.load(f)
    except FileNotFoundError:
        return []


class Recorder:
    """Collects what a check run covered and what it found."""

    MAX_SAMPLES = 8

    def __init__(self, property_id, tier, level, module):
        self.pid = property_id
        self.tier = tier
        self.level = level
        self.module = module
        self.t0 = time.time()
        self.seed = int(os.environ.get("VERIF_SEED", "0") or 0)
        self.counters = Counter()
        self.outcomes = Counter()
        self.samples = []
        self.sample_keys = set()
        self.violations = {}  # signature -> (description, case)
        self.violation_counts = Counter()
        self.assumptions = []
        self.extra = {}
        self.rule = ""
        self.exhaustive = True
        self.caps = []
        self.distinct = set()  # hashes of distinct non-trivial cases (bounded use)
        self.distinct_n = 0
        self.machinery_errors = []

    # ---- merging worker results
    def merge(self, res):
        """res: dict with optional counters/outcomes/samples/violations/distinct_n."""
        self.counters.update(res.get("counters", {}))
        self.outcomes.update(res.get("outcomes", {}))
        for s in res.get("samples", []):
            self.sample(s)
        for sig, desc, case in res.get("violations", []):
            self.violation(sig, desc, case)
        self.distinct_n += res.get("distinct_n", 0)
        for c in res.get("caps", []):
            self.cap(c)
        for e in res.get("machinery", []):
            self.machinery_errors.append(e)

    def count(self, name, n=1):
        self.counters[name] += n

    def sample(self, s, key=None):
        k = key or json.dumps(jsonable(s), sort_keys=True)[:200]
        if k in self.sample_keys:
            return
        if len(self.samples) < self.MAX_SAMPLES:
            self.samples.append(jsonable(s))
            self.sample_keys.add(k)

    def violation(self, signature, description, case):
        self.violation_counts[signature] += 1
        if signature not in self.violations:
            self.violations[signature] = (description, case)

    def cap(self, text):
        self.exhaustive = False
        if text not in self.caps:
            self.caps.append(text)

    def assume(self, *texts):
        for t in texts:
            if t not in self.assumptions:
                self.assumptions.append(t)

    # ---- finishing
    def finish(self, evaluations, distinct_nontrivial, states=None, transitions=None, traces=None):
        known = [k for k in load_known() if k.get("property") == self.pid and k.get("status") == "known"]
        known_sigs = {k["signature"]: k for k in known}
        new = []
        seen_known = []
        for sig, (desc, case) in sorted(self.violations.items()):
            if sig in known_sigs:
                seen_known.append((sig, desc))
            else:
                new.append((sig, desc, case))
        for sig, desc in seen_known:
            print("KNOWN-FINDING: property=%s %s -- %s" % (self.pid, sig, desc.splitlines()[0][:300]))
        os.makedirs(REPLAY_DIR, exist_ok=True)
        replay_paths = []
        for sig, desc, case in new:
            h = hashlib.sha256((self.pid + sig).encode()).hexdigest()[:12]
            path = os.path.join(REPLAY_DIR, "%s-%s.json" % (self.pid, h))
            with open(path, "w") as f:
                json.dump(
                    {
                        "property": self.pid,
                        "module": self.module,
                        "signature": sig,
                        "description": desc,
                        "case": jsonable(case),
                        "count": self.violation_counts[sig],
                    },
                    f,
                    indent=1,
                )
            replay_paths.append(path)
            print("VIOLATION property=%s replay=%s" % (self.pid, path))
            print("  signature: %s" % sig)
            print("  %s" % desc.replace("\n", "\n  ")[:1500])
        cov = {
            "evaluations": int(evaluations),
            "distinct_nontrivial": int(distinct_nontrivial),
            "rule": self.rule,
            "samples": self.samples if self.samples else ["(none)"],
            "exhaustive": bool(self.exhaustive),
            "counters": dict(self.counters),
            "outcome_classes": dict(self.outcomes),
            "caps_hit": self.caps,
            "known_findings_seen": [s for s, _ in seen_known],
        }
        if states is not None:
            cov["states"] = int(states)
            cov["transitions"] = int(transitions if transitions is not None else evaluations)
            cov["traces_validated_against_impl"] = int(traces if traces is not None else evaluations)
        cov.update(self.extra)
        ev = {
            "property_id": self.pid,
            "tier": self.tier,
            "seed": self.seed,
            "level": self.level,
            "coverage": cov,
            "assumptions": self.assumptions,
            "wall_s": round(time.time() - self.t0, 3),
            "violations": len(new),
        }
        os.makedirs(EVIDENCE_DIR, exist_ok=True)
        path = os.path.join(EVIDENCE_DIR, "%s.json" % self.pid)
        tmp = path + ".tmp%d" % os.getpid()
        with open(tmp, "w") as f:
            json.dump(ev, f, indent=1, sort_keys=True)
        os.rename(tmp, path)
        ok_schema = validate_evidence(path)
        print(
            "%s %s: evaluations=%d distinct_nontrivial=%d%s exhaustive=%s outcomes=%d wall=%.1fs"
            % (
                self.pid,
                self.tier,
                evaluations,
                distinct_nontrivial,
                (" states=%d transitions=%d" % (cov["states"], cov["transitions"])) if states is not None else "",
                self.exhaustive,
                len(self.outcomes),
                time.time() - self.t0,
            )
        )
        if self.machinery_errors:
            for e in self.machinery_errors[:5]:
                print("MACHINERY-ERROR %s" % e)
            # a violation that was observed and recorded stands on its own; an unrelated engine error does not erase it
            return 1 if new else 2
        if not ok_schema:
            print("MACHINERY-ERROR evidence file does not validate against the schema")
            return 2
        return 1 if new else 0


def validate_evidence(path):
    """Validate with jsonschema from the tooling venv if present; structural fallback."""
    try:
        p = subprocess.run(
            [
                "python3-vt",
                "-c",
                "import json,sys,jsonschema;"
                "jsonschema.validate(json.load(open(sys.argv[1])),json.load(open(sys.argv[2])))",
                path,
                SCHEMA,
            ],
            capture_output=True,
            text=True,
            timeout=60,
        )
        if p.returncode == 0:
            return True
        if "No module named" in p.stderr or "not found" in p.stderr:
            raise FileNotFoundError
        sys.stderr.write(p.stderr[-2000:])
        return False
    except (FileNotFoundError, subprocess.TimeoutExpired):
        ev = json.load(open(path))
        cov = ev.get("coverage", {})
        need = ["evaluations", "distinct_nontrivial", "rule", "samples"]
        return all(k in cov for k in need) and cov["evaluations"] >= 1 and cov["distinct_nontrivial"] >= 2
