"""Virtual-time asyncio event loop.

asyncio obtains time only through loop.time(); this loop answers from a harness clock and, when
it would block, asks an environment for its next scripted event (at a virtual instant), performs
it (real sendto on real sockets), and then polls the real selector for readiness. Timers and
environment events are therefore ordered exactly by virtual time, independent of the wall clock.
"""

import asyncio
import selectors


class Deadlock(Exception):
    pass


class _VSelector(selectors.BaseSelector):
    def __init__(self, owner):
        self._real = selectors.DefaultSelector()
        self._owner = owner

    def register(self, fileobj, events, data=None):
        return self._real.register(fileobj, events, data)

    def unregister(self, fileobj):
        return self._real.unregister(fileobj)

    def modify(self, fileobj, events, data=None):
        return self._real.modify(fileobj, events, data)

    def close(self):
        self._real.close()

    def get_map(self):
        return self._real.get_map()

    def get_key(self, fileobj):
        return self._real.get_key(fileobj)

    def select(self, timeout=None):
        loop = self._owner
        if timeout is not None and timeout <= 0:
            return self._real.select(0)
        ready = self._real.select(0)
        if ready:
            return ready
        env = loop.env
        t_ev = env.next_event_time() if env is not None else None
        t_timer = loop._vtime + timeout if timeout is not None else None
        if t_ev is not None and (t_timer is None or t_ev <= t_timer):
            loop._vtime = max(loop._vtime, t_ev)
            env.fire(loop._vtime)
            # the event made something readable (or not); give the kernel a moment to say so
            return self._real.select(env.settle)
        if t_timer is not None:
            loop._vtime = t_timer
            return self._real.select(0)
        raise Deadlock("event loop would block forever at virtual t=%r" % loop._vtime)


class VirtualLoop(asyncio.SelectorEventLoop):
    def __init__(self, env=None):
        self._vtime = 0.0
        self.env = env
        super().__init__(_VSelector(self))

    def time(self):
        return self._vtime


class ScriptEnv:
    """Environment = list of (virtual time, callable) fired in order."""

    settle = 0.05

    def __init__(self, events=()):
        self.events = sorted(events, key=lambda e: e[0])
        self.i = 0
        self.fired = []

    def next_event_time(self):
        return self.events[self.i][0] if self.i < len(self.events) else None

    def fire(self, now):
        t, fn = self.events[self.i]
        self.i += 1
        self.fired.append(t)
        fn()
