"""Reference BER / SNMP codec written from X.690, RFC 1157/3416/3412/3414 only.

Shares no code with /repo/src. Used as oracle: builds agent replies from a value model
and reads captured requests back *strictly* (definite, minimal lengths; minimal
INTEGERs; canonical OID arcs; nothing left over at any level).
"""

import math
import struct
from fractions import Fraction


class StrictError(Exception):
    pass


# ---------------------------------------------------------------- encoding


def enc_len(n, form=None):
    """Length octets. form None = minimal; 1..4 = long form with that many octets."""
    if form is None:
        if n < 128:
            return bytes([n])
        k = (n.bit_length() + 7) // 8
        return bytes([0x80 | k]) + n.to_bytes(k, "big")
    return bytes([0x80 | form]) + n.to_bytes(form, "big")


def tlv(tag, content, form=None):
    return bytes([tag]) + enc_len(len(content), form) + content


def twos(v):
    """Minimal two's complement content octets of an integer."""
    n = 1
    while not (-(1 << (8 * n - 1)) <= v < (1 << (8 * n - 1))):
        n += 1
    return (v & ((1 << (8 * n)) - 1)).to_bytes(n, "big")


def enc_int(v, form=None):
    return tlv(0x02, twos(v), form)


def unsigned_content(v, pad=0):
    """Unsigned value as INTEGER-style content (leading zero when the top bit is set)."""
    b = twos(v)
    return b"\x00" * pad + b


def enc_octets(b, tag=0x04, form=None):
    return tlv(tag, bytes(b), form)


def enc_null():
    return b"\x05\x00"


def arc_bytes(a):
    if a < 0:
        raise ValueError("negative arc")
    out = [a & 0x7F]
    a >>= 7
    while a:
        out.append((a & 0x7F) | 0x80)
        a >>= 7
    return bytes(reversed(out))


def oid_content(arcs):
    arcs = list(arcs)
    if len(arcs) < 2:
        raise ValueError("oid needs two arcs")
    first = arcs[0] * 40 + arcs[1]
    return arc_bytes(first) + b"".join(arc_bytes(a) for a in arcs[2:])


def enc_oid(arcs, form=None):
    return tlv(0x06, oid_content(arcs), form)


def oid_arcs(s):
    return tuple(int(x) for x in s.split("."))


def oid_str(arcs):
    return ".".join(str(a) for a in arcs)


def decode_oid_content(b, strict=True):
    """Canonical decode of OID content -> arcs tuple; raises StrictError."""
    if not b:
        raise StrictError("empty oid")
    subs = []
    v = 0
    started = False
    for c in b:
        if strict and not started and c == 0x80:
            raise StrictError("non-minimal arc")
        started = True
        v = (v << 7) | (c & 0x7F)
        if not c & 0x80:
            subs.append(v)
            v = 0
            started = False
    if started:
        raise StrictError("truncated arc")
    f = subs[0]
    if f < 40:
        a, b2 = 0, f
    elif f < 80:
        a, b2 = 1, f - 40
    else:
        a, b2 = 2, f - 80
    return (a, b2) + tuple(subs[1:])


# ---------------------------------------------------------------- strict decoding


class Node:
    __slots__ = ("tag", "content", "start", "hlen", "end", "children")

    def __init__(self, tag, content, start, hlen, end):
        self.tag = tag
        self.content = content
        self.start = start
        self.hlen = hlen
        self.end = end
        self.children = None

    @property
    def cstart(self):
        return self.start + self.hlen

    def __repr__(self):
        return "Node(%02x,%d@%d)" % (self.tag, len(self.content), self.start)


def parse_tlv(data, off=0, end=None, strict=True):
    """Parse one TLV at data[off:end]. Returns Node. Low tag numbers only."""
    if end is None:
        end = len(data)
    if off + 2 > end:
        raise StrictError("truncated header")
    tag = data[off]
    if tag & 0x1F == 0x1F:
        raise StrictError("high tag number")
    l0 = data[off + 1]
    p = off + 2
    if l0 < 0x80:
        ln = l0
    elif l0 == 0x80:
        raise StrictError("indefinite length")
    else:
        k = l0 & 0x7F
        if p + k > end:
            raise StrictError("truncated length")
        ln = int.from_bytes(data[p : p + k], "big")
        if strict and (ln < 128 or data[p] == 0):
            raise StrictError("non-minimal length")
        p += k
    if p + ln > end:
        raise StrictError("content overruns")
    return Node(tag, bytes(data[p : p + ln]), off, p - off, p + ln)


def parse_seq(data, off, end, strict=True):
    out = []
    while off < end:
        n = parse_tlv(data, off, end, strict)
        out.append(n)
        off = n.end
    return out


def tree(data, strict=True):
    """Full TLV tree of a message (constructed nodes expanded). Raises on leftovers."""
    n = parse_tlv(data, 0, len(data), strict)
    if n.end != len(data):
        raise StrictError("trailing bytes")
    _expand(data, n, strict)
    return n


def _expand(data, n, strict):
    if n.tag & 0x20:
        n.children = parse_seq(data, n.cstart, n.end, strict)
        for c in n.children:
            _expand(data, c, strict)


def all_nodes(root):
    out = [root]
    for c in root.children or ():
        out.extend(all_nodes(c))
    return out


def int_value(node, strict=True):
    c = node.content
    if node.tag != 0x02:
        raise StrictError("INTEGER expected, got %02x" % node.tag)
    if not c:
        raise StrictError("empty INTEGER")
    if strict and len(c) > 1:
        if (c[0] == 0 and not c[1] & 0x80) or (c[0] == 0xFF and c[1] & 0x80):
            raise StrictError("non-minimal INTEGER")
    return int.from_bytes(c, "big", signed=True)


def expect(node, tag):
    if node.tag != tag:
        raise StrictError("tag %02x expected, got %02x" % (tag, node.tag))
    return node


# ---------------------------------------------------------------- SNMP messages


PDU_GET, PDU_GETNEXT, PDU_RESPONSE, PDU_GETBULK, PDU_REPORT = 0xA0, 0xA1, 0xA2, 0xA5, 0xA8


def varbind(name_tlv, value_tlv, form=None):
    return tlv(0x30, name_tlv + value_tlv, form)


def build_pdu(tag, request_id, a, b, varbinds, form=None):
    """varbinds: list of already encoded varbind TLVs (or (oid_arcs, value_tlv) pairs)."""
    vbs = b""
    for vb in varbinds:
        if isinstance(vb, (bytes, bytearray)):
            vbs += bytes(vb)
        else:
            vbs += varbind(enc_oid(vb[0]), vb[1])
    return tlv(tag, enc_int(request_id) + enc_int(a) + enc_int(b) + tlv(0x30, vbs, form), form)


def build_community_msg(version, community, pdu, form=None):
    if isinstance(community, str):
        community = community.encode()
    return tlv(0x30, enc_int(version) + enc_octets(community) + pdu, form)


def build_scoped(ctx_engine_id, ctx_name, pdu):
    return tlv(0x30, enc_octets(ctx_engine_id) + enc_octets(ctx_name) + pdu)


def build_usm(engine_id, boots, time, user, auth_params, priv_params):
    if isinstance(user, str):
        user = user.encode()
    return tlv(
        0x30,
        enc_octets(engine_id)
        + enc_int(boots)
        + enc_int(time)
        + enc_octets(user)
        + enc_octets(auth_params)
        + enc_octets(priv_params),
    )


def build_v3(msg_id, flags, usm, msg_data, max_size=65507, model=3):
    """msg_data: already encoded scopedPDU (SEQUENCE) or OCTET STRING with ciphertext."""
    hdr = tlv(0x30, enc_int(msg_id) + enc_int(max_size) + enc_octets(bytes([flags])) + enc_int(model))
    return tlv(0x30, enc_int(3) + hdr + enc_octets(usm) + msg_data)


class Request:
    """A captured request, strictly decoded."""

    def __init__(self):
        self.version = None
        self.community = None
        self.pdu_tag = None
        self.request_id = None
        self.a = None  # error-status / non-repeaters
        self.b = None  # error-index / max-repetitions
        self.oids = None  # list of arc tuples
        self.oid_contents = None  # raw OID content octets
        # v3
        self.msg_id = None
        self.max_size = None
        self.flags = None
        self.model = None
        self.engine_id = None
        self.boots = None
        self.time = None
        self.user = None
        self.auth_params = None
        self.auth_off = None  # offset of auth params content in the datagram
        self.priv_params = None
        self.encrypted = None  # ciphertext or None
        self.ctx_engine_id = None
        self.ctx_name = None
        self.scoped_raw = None  # plaintext scoped PDU TLV as found (plain messages)

    def __repr__(self):
        return "Request(v%s %02x id=%s oids=%s)" % (self.version, self.pdu_tag or 0, self.request_id, self.oids)


def _parse_pdu_into(r, data, node, strict):
    r.pdu_tag = node.tag
    if node.tag not in (PDU_GET, PDU_GETNEXT, PDU_GETBULK, PDU_RESPONSE, PDU_REPORT):
        raise StrictError("unknown pdu tag %02x" % node.tag)
    kids = parse_seq(data, node.cstart, node.end, strict)
    if len(kids) != 4:
        raise StrictError("pdu must have 4 fields")
    r.request_id = int_value(kids[0], strict)
    r.a = int_value(kids[1], strict)
    r.b = int_value(kids[2], strict)
    expect(kids[3], 0x30)
    r.oids = []
    r.oid_contents = []
    r.values = []
    for vb in parse_seq(data, kids[3].cstart, kids[3].end, strict):
        expect(vb, 0x30)
        parts = parse_seq(data, vb.cstart, vb.end, strict)
        if len(parts) != 2:
            raise StrictError("varbind must have 2 fields")
        expect(parts[0], 0x06)
        r.oid_contents.append(parts[0].content)
        r.oids.append(decode_oid_content(parts[0].content, strict))
        r.values.append((parts[1].tag, parts[1].content))


def parse_message(data, strict=True):
    """Strictly decode a v1/v2c/v3 message. Encrypted v3 payload is left in .encrypted."""
    data = bytes(data)
    r = Request()
    top = parse_tlv(data, 0, len(data), strict)
    if top.tag != 0x30:
        raise StrictError("top-level SEQUENCE expected")
    if top.end != len(data):
        raise StrictError("trailing bytes after message")
    kids = parse_seq(data, top.cstart, top.end, strict)
    if not kids:
        raise StrictError("empty message")
    r.version = int_value(kids[0], strict)
    if r.version in (0, 1):
        if len(kids) != 3:
            raise StrictError("v1/v2c message must have 3 fields")
        expect(kids[1], 0x04)
        r.community = kids[1].content
        _parse_pdu_into(r, data, kids[2], strict)
        return r
    if r.version != 3:
        raise StrictError("unknown version %d" % r.version)
    if len(kids) != 4:
        raise StrictError("v3 message must have 4 fields")
    expect(kids[1], 0x30)
    h = parse_seq(data, kids[1].cstart, kids[1].end, strict)
    if len(h) != 4:
        raise StrictError("v3 header must have 4 fields")
    r.msg_id = int_value(h[0], strict)
    r.max_size = int_value(h[1], strict)
    expect(h[2], 0x04)
    if len(h[2].content) != 1:
        raise StrictError("msgFlags must be one octet")
    r.flags = h[2].content[0]
    r.model = int_value(h[3], strict)
    expect(kids[2], 0x04)
    sp = kids[2]
    usm = parse_tlv(data, sp.cstart, sp.end, strict)
    if usm.tag != 0x30 or usm.end != sp.end:
        raise StrictError("USM parameters malformed")
    u = parse_seq(data, usm.cstart, usm.end, strict)
    if len(u) != 6:
        raise StrictError("USM must have 6 fields")
    r.engine_id = expect(u[0], 0x04).content
    r.boots = int_value(u[1], strict)
    r.time = int_value(u[2], strict)
    r.user = expect(u[3], 0x04).content
    r.auth_params = expect(u[4], 0x04).content
    r.auth_off = u[4].cstart
    r.priv_params = expect(u[5], 0x04).content
    d = kids[3]
    if d.tag == 0x04:
        r.encrypted = d.content
    elif d.tag == 0x30:
        r.scoped_raw = data[d.start : d.end]
        parse_scoped_into(r, data[d.start : d.end], strict)
    else:
        raise StrictError("msgData must be SEQUENCE or OCTET STRING")
    return r


def parse_scoped_into(r, scoped, strict=True, allow_padding=False):
    """Decode a scopedPDU TLV (possibly followed by cipher padding) into r."""
    n = parse_tlv(scoped, 0, len(scoped), strict)
    if n.tag != 0x30:
        raise StrictError("scopedPDU SEQUENCE expected")
    if not allow_padding and n.end != len(scoped):
        raise StrictError("trailing bytes after scopedPDU")
    s = parse_seq(scoped, n.cstart, n.end, strict)
    if len(s) != 3:
        raise StrictError("scopedPDU must have 3 fields")
    r.ctx_engine_id = expect(s[0], 0x04).content
    r.ctx_name = expect(s[1], 0x04).content
    _parse_pdu_into(r, scoped, s[2], strict)
    return n.end  # length of the scoped PDU proper


# ---------------------------------------------------------------- REAL


def real_binary(sign, mantissa, base, f, exponent, exp_len=None):
    """X.690 8.5.7 binary REAL contents. base in (2, 8, 16); f in 0..3."""
    bb = {2: 0, 8: 1, 16: 2}[base]
    e = twos(exponent)
    if exp_len is not None:
        if exp_len < len(e):
            raise ValueError("exponent does not fit")
        pad = b"\xff" if exponent < 0 else b"\x00"
        e = pad * (exp_len - len(e)) + e
    first = 0x80 | (0x40 if sign < 0 else 0) | (bb << 4) | (f << 2)
    if len(e) <= 3:
        first |= len(e) - 1
        head = bytes([first])
    else:
        first |= 3
        head = bytes([first, len(e)])
    n = mantissa.to_bytes(max(1, (mantissa.bit_length() + 7) // 8), "big")
    return head + e + n


def real_binary_value(sign, mantissa, base, f, exponent):
    """Exact value as Fraction."""
    v = Fraction(mantissa) * (Fraction(2) ** f) * (Fraction(base) ** exponent)
    return -v if sign < 0 else v


def fraction_to_float(fr):
    try:
        return float(fr)
    except OverflowError:
        return math.inf if fr > 0 else -math.inf


def real_decimal(nr, text):
    return bytes([nr]) + text.encode()


def ulp_diff(a, b):
    """Distance in units in the last place between two finite floats."""
    if a == b:
        return 0

    def key(x):
        (i,) = struct.unpack(">q", struct.pack(">d", x))
        return i if i >= 0 else -(i & 0x7FFFFFFFFFFFFFFF)

    return abs(key(a) - key(b))
