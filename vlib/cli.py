"""vcheck command line."""

import importlib
import json
import os
import sys
import time
import traceback

from . import build
from .evidence import unjson

CHECKS = ["C%02d" % i for i in range(1, 20)]


def _module(pid):
    return importlib.import_module("vlib.checks.%s" % pid.lower())


def cmd_setup():
    t0 = time.time()
    stage = build.build_ext()
    print("extension staged at %s (%.1fs)" % (stage, time.time() - t0))
    t0 = time.time()
    rsx = build.build_rsx()
    print("rsx built at %s (%.1fs)" % (rsx, time.time() - t0))
    from . import refcrypto

    print("reference crypto self-test:", "; ".join(refcrypto.selftest()))
    try:
        from . import loomx

        t0 = time.time()
        loomx.setup_build()
        print("loomx built (%.1fs)" % (time.time() - t0))
    except ImportError:
        pass
    return 0


def cmd_check(pid, tier):
    os.environ["VERIF_TIER"] = tier
    try:
        mod = _module(pid)
    except ImportError as e:
        print("MACHINERY-ERROR no check module for %s: %s" % (pid, e))
        return 2
    try:
        return mod.run(tier)
    except build.MachineryError as e:
        print("MACHINERY-ERROR %s" % e)
        return 2
    except Exception:  # noqa: BLE001
        traceback.print_exc()
        print("MACHINERY-ERROR unexpected exception in check driver")
        return 2


def cmd_replay(path):
    with open(path) as f:
        obj = json.load(f)
    mod = importlib.import_module(obj["module"])
    print("replaying %s / %s" % (obj["property"], obj["signature"]))
    print("recorded: %s" % obj["description"])
    out = mod.replay(unjson(obj["case"]))
    print("observed now: %s" % (out,))
    return 0


def main(argv):
    if not argv:
        print("usage: vcheck setup | <Cxx> [--tier quick|thorough] | replay <file> | all [--tier t]")
        return 2
    tier = os.environ.get("VERIF_TIER", "quick")
    if "--tier" in argv:
        i = argv.index("--tier")
        tier = argv[i + 1]
        argv = argv[:i] + argv[i + 2 :]
    if tier not in ("quick", "thorough"):
        print("bad tier")
        return 2
    cmd = argv[0]
    if cmd == "setup":
        try:
            return cmd_setup()
        except build.MachineryError as e:
            print("MACHINERY-ERROR %s" % e)
            return 2
    if cmd == "replay":
        return cmd_replay(argv[1])
    if cmd == "all":
        rc = 0
        for pid in CHECKS:
            try:
                _module(pid)
            except ImportError:
                continue
            r = cmd_check(pid, tier)
            print("== %s exit %d" % (pid, r))
            rc = max(rc, r)
        return rc
    if cmd.upper() in CHECKS:
        return cmd_check(cmd.upper(), tier)
    print("unknown command %s" % cmd)
    return 2
