"""Drivers: real client objects + a scripted in-process agent on loopback UDP.

D-split: the `_fast` socket classes through their split API on a non-blocking socket.
D-sync : the real gufo.snmp.sync_client.SnmpSession, agent in a second thread.
D-async: the real gufo.snmp SnmpSession on a virtual-time asyncio loop (see vloop.py).
"""

import os
import select
import socket

from . import build, refber, refcrypto
from .build import MachineryError

_subject = {}


def subject():
    """Import the staged subject once per process; returns (gufo.snmp, _fast)."""
    if "mod" not in _subject:
        stage = os.environ.get("VERIF_STAGE") or build.build_ext()
        mod = build.import_subject(stage)
        import gufo.snmp._fast as fast

        _subject["mod"] = mod
        _subject["fast"] = fast
        _subject["stage"] = stage
    return _subject["mod"], _subject["fast"]


def documented_exceptions():
    mod, fast = subject()
    return (
        fast.SnmpError,
        TimeoutError,
        BlockingIOError,
        OSError,
        ValueError,
        StopIteration,
        StopAsyncIteration,
        NotImplementedError,
    )


# ------------------------------------------------------------------ configurations

KT_PASSWORD, KT_MASTER, KT_LOCALIZED = 0, 1, 2
AUTH_NAMES = {0: "noauth", 1: "md5", 2: "sha1"}
PRIV_NAMES = {0: "nopriv", 1: "des", 2: "aes"}

_key_cache = {}


def master_key(alg, password):
    k = (alg, bytes(password))
    if k not in _key_cache:
        _key_cache[k] = refcrypto.password_to_key_fast(alg, bytes(password))
    return _key_cache[k]


class Cfg:
    """A session configuration, with the reference (agent-side) view of its keys."""

    def __init__(
        self,
        version,
        community="public",
        user="user1",
        engine_id=b"\x80\x00\x1f\x88\x04engine",
        auth=0,
        priv=0,
        auth_pass=b"authpass12",
        priv_pass=b"privpass34",
        key_type=KT_PASSWORD,
        discover=False,
        priv_key_type=None,
        same_bytes=False,
    ):
        self.same_bytes = same_bytes  # the privacy key is given as the very octets of the auth key (but typed priv_key_type)
        self.version = version  # "v1" | "v2c" | "v3"
        self.community = community
        self.user = user
        self.engine_id = bytes(engine_id)
        self.auth = auth
        self.priv = priv
        self.auth_pass = bytes(auth_pass)
        self.priv_pass = bytes(priv_pass)
        self.key_type = key_type
        self.priv_key_type = key_type if priv_key_type is None else priv_key_type
        self.discover = discover  # create the socket without an engine id

    @property
    def name(self):
        if self.version != "v3":
            return self.version
        return "v3-%s-%s-kt%d%s%s" % (
            AUTH_NAMES[self.auth],
            PRIV_NAMES[self.priv],
            self.key_type,
            ("p%d" % self.priv_key_type) if self.priv_key_type != self.key_type else "",
            ("-disc" if self.discover else "") + ("-same" if self.same_bytes else ""),
        )

    def describe(self):
        d = {"version": self.version}
        if self.version == "v3":
            d.update(
                user=self.user,
                engine_id=self.engine_id.hex(),
                auth=AUTH_NAMES[self.auth],
                priv=PRIV_NAMES[self.priv],
                key_type=self.key_type,
                priv_key_type=self.priv_key_type,
                discover=self.discover,
                auth_pass=self.auth_pass.hex(),
                priv_pass=self.priv_pass.hex(),
            )
            if self.same_bytes:
                d["same_bytes"] = True
        else:
            d.update(community=self.community)
        return d

    @staticmethod
    def from_desc(d):
        if d["version"] != "v3":
            return Cfg(d["version"], community=d.get("community", "public"))
        inv_a = {v: k for k, v in AUTH_NAMES.items()}
        inv_p = {v: k for k, v in PRIV_NAMES.items()}
        return Cfg(
            "v3",
            user=d["user"],
            engine_id=bytes.fromhex(d["engine_id"]),
            auth=inv_a[d["auth"]],
            priv=inv_p[d["priv"]],
            key_type=d["key_type"],
            priv_key_type=d.get("priv_key_type"),
            discover=d.get("discover", False),
            auth_pass=bytes.fromhex(d["auth_pass"]) if "auth_pass" in d else b"authpass12",
            priv_pass=bytes.fromhex(d["priv_pass"]) if "priv_pass" in d else b"privpass34",
            same_bytes=d.get("same_bytes", False),
        )

    # ---- reference keys (agent side)
    def auth_kul(self, engine_id=None):
        if not self.auth:
            return None
        return refcrypto.localize(self.auth, master_key(self.auth, self.auth_pass), engine_id or self.engine_id)

    def priv_kul(self, engine_id=None):
        if not self.priv:
            return None
        # RFC 3414 A.2 / RFC 3826 1.2: privacy key localized with the *auth* digest
        if self.same_bytes:
            eid = engine_id or self.engine_id
            mat = self._material(self.auth, self.auth_pass, eid, self.key_type)
            if self.priv_key_type == KT_PASSWORD:
                return refcrypto.localize(self.auth, master_key(self.auth, mat), eid)
            if self.priv_key_type == KT_MASTER:
                return refcrypto.localize(self.auth, mat, eid)
            return mat
        return refcrypto.localize(self.auth, master_key(self.auth, self.priv_pass), engine_id or self.engine_id)

    # ---- material as handed to the library, per key type
    def _material(self, alg_for_digest, password, engine_id, key_type=None):
        key_type = self.key_type if key_type is None else key_type
        if key_type == KT_PASSWORD:
            return password
        mk = master_key(alg_for_digest, password)
        if key_type == KT_MASTER:
            return mk
        return refcrypto.localize(alg_for_digest, mk, engine_id)

    def raw_args(self, engine_id=None):
        """(engine_id, user, auth_alg, auth_key, priv_alg, priv_key) for SnmpV3ClientSocket."""
        eid = self.engine_id if engine_id is None else engine_id
        a_alg = (self.auth | (self.key_type << 6)) if self.auth else 0
        a_key = self._material(self.auth, self.auth_pass, eid) if self.auth else b""
        p_alg = (self.priv | (self.priv_key_type << 6)) if self.priv else 0
        p_key = self._material(self.auth, self.priv_pass, eid, self.priv_key_type) if self.priv else b""
        if self.priv and self.same_bytes:
            p_key = a_key
        return eid, self.user, a_alg, a_key, p_alg, p_key

    def make_user(self):
        """gufo.snmp.User for the public clients."""
        subject()
        from gufo.snmp.user import Aes128Key, DesKey, KeyType, Md5Key, Sha1Key, User

        kts = {0: KeyType.Password, 1: KeyType.Master, 2: KeyType.Localized}
        kt = kts[self.key_type]
        pkt = kts[self.priv_key_type]
        ak = pk = None
        if self.auth:
            cls = {1: Md5Key, 2: Sha1Key}[self.auth]
            ak = cls(self._material(self.auth, self.auth_pass, self.engine_id), key_type=kt)
        if self.priv:
            cls = {1: DesKey, 2: Aes128Key}[self.priv]
            pmat = self._material(self.auth, self.priv_pass, self.engine_id, self.priv_key_type)
            if self.same_bytes:
                pmat = self._material(self.auth, self.auth_pass, self.engine_id)
            pk = cls(pmat, key_type=pkt)
        return User(self.user, auth_key=ak, priv_key=pk)

    def make_raw_socket(self, port, timeout_ns=0):
        mod, fast = subject()
        addr = "127.0.0.1:%d" % port
        if self.version == "v1":
            return fast.SnmpV1ClientSocket(addr, self.community, 0, 0, 0, timeout_ns)
        if self.version == "v2c":
            return fast.SnmpV2cClientSocket(addr, self.community, 0, 0, 0, timeout_ns)
        if self.discover:
            # what the public clients do: no engine id, anonymous user, keys installed later via set_keys
            return fast.SnmpV3ClientSocket(addr, b"", "", 0, b"", 0, b"", 0, 0, 0, timeout_ns)
        eid, user, a_alg, a_key, p_alg, p_key = self.raw_args()
        return fast.SnmpV3ClientSocket(addr, eid, user, a_alg, a_key, p_alg, p_key, 0, 0, 0, timeout_ns)


def k7(key_type=KT_PASSWORD):
    """The seven v3 security configurations."""
    out = []
    for a, p in ((0, 0), (1, 0), (2, 0), (1, 1), (1, 2), (2, 1), (2, 2)):
        out.append(Cfg("v3", auth=a, priv=p, key_type=key_type))
    return out


# ------------------------------------------------------------------ v3 agent side


class V3Error(Exception):
    pass


def open_request(cfg, data, engine_id=None, strict=True, check_mac=True):
    """Agent-side processing of a captured datagram. Returns refber.Request with the
    scoped PDU decoded (decrypting if needed). Raises StrictError / V3Error."""
    r = refber.parse_message(data, strict)
    if r.version != 3:
        return r
    r.mac_ok = None
    r.padding = b""
    r.scoped_len = None
    eid = engine_id or r.engine_id or cfg.engine_id
    if r.flags & 1:
        if check_mac:
            kul = cfg.auth_kul(r.engine_id)
            if kul is None:
                raise V3Error("auth flag set but the session has no auth key")
            if len(r.auth_params) != 12:
                raise V3Error("auth params are %d octets" % len(r.auth_params))
            r.mac_ok = refcrypto.mac_of_message(cfg.auth, kul, data, r.auth_off) == r.auth_params
    if r.encrypted is not None:
        if not r.flags & 2:
            raise V3Error("encrypted msgData without priv flag")
        kul = cfg.priv_kul(r.engine_id)
        if kul is None:
            raise V3Error("encrypted msgData but the session has no priv key")
        if len(r.priv_params) != 8:
            raise V3Error("msgPrivacyParameters are %d octets" % len(r.priv_params))
        plain = refcrypto.usm_decrypt(cfg.priv, kul, r.boots, r.time, r.priv_params, r.encrypted)
        r.plain = plain
        n = refber.parse_scoped_into(r, plain, strict, allow_padding=True)
        r.scoped_len = n
        r.scoped_raw = plain[:n]
        r.padding = plain[n:]
    return r


def seal_reply(cfg, msg_id, engine_id, boots, time, scoped, flags=None, salt=None, user=None, auth=True, reportable=False, partial_tail=0, pad=None):
    """Build an agent->client v3 message carrying `scoped` (an encoded scopedPDU),
    protected according to cfg (or to explicit flags)."""
    if flags is None:
        flags = (1 if cfg.auth else 0) | (2 if cfg.priv else 0)
    if reportable:
        flags |= 4
    user = cfg.user if user is None else user
    priv_params = b""
    data = scoped
    if flags & 2:
        salt = salt if salt is not None else b"\x00\x00\x00\x01agnt"[:8]
        kul = cfg.priv_kul(engine_id)
        if pad is not None:
            # the agent pads the plaintext itself to a whole number of blocks (pad = ("size"|"zero"|"ff", always_a_block))
            how, full = pad
            block = 8 if cfg.priv == refcrypto.DES else 16
            k = (-len(scoped)) % block
            if k == 0 and full:
                k = block
            fill = {"size": bytes([k]) * k, "zero": bytes(k), "ff": b"\xff" * k}[how]
            scoped = scoped + fill
        if partial_tail:
            # only the whole blocks are encrypted; `partial_tail` octets that belong to no block follow
            whole = len(scoped) - len(scoped) % 8
            ct = refcrypto.usm_encrypt(cfg.priv, kul, boots, time, salt, scoped[:whole])[:whole] + b"\xa5" * partial_tail
            data = refber.enc_octets(ct)
        else:
            data = refber.enc_octets(refcrypto.usm_encrypt(cfg.priv, kul, boots, time, salt, scoped))
        priv_params = salt
    auth_params = b"\x00" * 12 if flags & 1 else b""
    usm = refber.build_usm(engine_id, boots, time, user, auth_params, priv_params)
    msg = refber.build_v3(msg_id, flags, usm, data)
    if flags & 1 and auth:
        # offset of the 12 placeholder octets: 5th field of the USM sequence (the message body may be malformed on purpose)
        base = msg.index(usm)
        top = refber.parse_tlv(usm, 0, len(usm))
        fields = refber.parse_seq(usm, top.cstart, top.end)
        off = base + fields[4].cstart
        mac = refcrypto.mac_of_message(cfg.auth, cfg.auth_kul(engine_id), msg, off)
        msg = msg[:off] + mac + msg[off + 12 :]
    return msg


def reply_for(cfg, req, varbinds, pdu_tag=refber.PDU_RESPONSE, error_status=0, error_index=0, request_id=None, **kw):
    """Well-formed reply to a strictly decoded request `req` (Request)."""
    rid = req.request_id if request_id is None else request_id
    pdu = refber.build_pdu(pdu_tag, rid, error_status, error_index, varbinds)
    if req.version in (0, 1):
        return refber.build_community_msg(req.version, req.community, pdu)
    eid = kw.pop("engine_id", None) or req.engine_id or cfg.engine_id
    boots = kw.pop("boots", req.boots)
    time = kw.pop("time", req.time)
    scoped = refber.build_scoped(kw.pop("ctx_engine_id", eid), b"", pdu)
    return seal_reply(cfg, kw.pop("msg_id", req.msg_id), eid, boots, time, scoped, **kw)


# ------------------------------------------------------------------ worlds


class Outcome:
    __slots__ = ("kind", "value", "exc")

    def __init__(self, kind, value=None, exc=None):
        self.kind = kind  # "ok" | "exc"
        self.value = value
        self.exc = exc

    @property
    def exc_name(self):
        return type(self.exc).__name__ if self.exc is not None else None

    def is_documented(self):
        return self.kind == "ok" or isinstance(self.exc, documented_exceptions())

    def is_panic(self):
        return self.exc is not None and not isinstance(self.exc, Exception)

    def brief(self):
        if self.kind == "ok":
            return ("ok", self.value)
        return ("exc", self.exc_name, str(self.exc)[:120])

    def __repr__(self):
        return "Outcome%r" % (self.brief(),)


def call(fn, *args):
    try:
        return Outcome("ok", fn(*args))
    except BaseException as e:  # noqa: BLE001 - PanicException is a BaseException
        if isinstance(e, (KeyboardInterrupt, SystemExit, MemoryError)):
            raise
        return Outcome("exc", exc=e)


def local_addr_of_fd(fd):
    s = socket.socket(fileno=os.dup(fd))
    try:
        return s.getsockname()
    finally:
        s.close()


class SplitWorld:
    """One raw `_fast` socket (non-blocking) and the agent's UDP socket."""

    def __init__(self, cfg, agent=None):
        self.cfg = cfg
        self.own_agent = agent is None
        if agent is None:
            agent = socket.socket(socket.AF_INET, socket.SOCK_DGRAM)
            agent.bind(("127.0.0.1", 0))
            agent.setblocking(False)
        self.agent = agent
        self.port = agent.getsockname()[1]
        self.sock = cfg.make_raw_socket(self.port, 0)
        self.fd = self.sock.get_fd()
        self.addr = local_addr_of_fd(self.fd)
        self.iters = {}

    def close(self):
        self.sock = None
        if self.own_agent:
            self.agent.close()

    # -- requests
    def take_request(self, wait=1.0):
        """Datagram the client just sent (or None)."""
        r, _, _ = select.select([self.agent], [], [], wait)
        if not r:
            return None
        data, addr = self.agent.recvfrom(65535)
        return data

    def no_request_pending(self):
        r, _, _ = select.select([self.agent], [], [], 0)
        return not r

    def drain(self):
        n = 0
        while True:
            r, _, _ = select.select([self.agent], [], [], 0)
            if not r:
                return n
            self.agent.recvfrom(65535)
            n += 1

    # -- replies
    def inject(self, data):
        self.agent.sendto(data, self.addr)
        r, _, _ = select.select([self.fd], [], [], 2.0)
        if not r:
            raise MachineryError("injected datagram did not become readable on the client socket")

    def client_queue_empty(self):
        r, _, _ = select.select([self.fd], [], [], 0)
        return not r

    def flush_client_queue(self):
        """Throw away whatever is queued on the client socket (harness-side)."""
        s = socket.socket(fileno=os.dup(self.fd))
        try:
            s.setblocking(False)
            n = 0
            while True:
                try:
                    s.recv(65535)
                    n += 1
                except BlockingIOError:
                    return n
        finally:
            s.close()

    # -- operations: op in get, get_many, getnext, getbulk, refresh
    def iter_for(self, key, oid, max_rep=None):
        mod, fast = subject()
        if key not in self.iters:
            self.iters[key] = fast.GetIter(oid, max_rep) if max_rep is not None else fast.GetIter(oid)
        return self.iters[key]

    def send(self, op, arg=None, it=None):
        s = self.sock
        if op == "get":
            return call(s.send_get, arg)
        if op == "get_many":
            return call(s.send_get_many, arg)
        if op == "getnext":
            return call(s.send_get_next, it)
        if op == "getbulk":
            return call(s.send_get_bulk, it)
        if op == "refresh":
            return call(s.send_refresh)
        raise ValueError(op)

    def recv(self, op, it=None):
        s = self.sock
        if op == "get":
            return call(s.recv_get)
        if op == "get_many":
            return call(s.recv_get_many)
        if op == "getnext":
            return call(s.recv_get_next, it)
        if op == "getbulk":
            return call(s.recv_get_bulk, it)
        if op == "refresh":
            return call(s.recv_refresh)
        raise ValueError(op)


def new_agent_socket(blocking=False):
    agent = socket.socket(socket.AF_INET, socket.SOCK_DGRAM)
    agent.bind(("127.0.0.1", 0))
    agent.setblocking(blocking)
    return agent


# ------------------------------------------------------------------ D-sync / D-async


def session_kwargs(cfg, port, timeout):
    subject()
    from gufo.snmp import SnmpVersion

    kw = dict(addr="127.0.0.1", port=port, timeout=timeout)
    if cfg.version == "v1":
        kw.update(version=SnmpVersion.v1, community=cfg.community)
    elif cfg.version == "v2c":
        kw.update(version=SnmpVersion.v2c, community=cfg.community)
    else:
        kw.update(version=SnmpVersion.v3, user=cfg.make_user())
        if not cfg.discover:
            kw.update(engine_id=cfg.engine_id)
    return kw


class SyncWorld:
    """Real blocking gufo.snmp.sync_client.SnmpSession; the agent answers from a thread.

    responder(request_bytes, index) -> list of datagrams to send back (may be empty).
    Strict request/response alternation keeps this deterministic.
    """

    def __init__(self, cfg, responder, timeout=3.0, **session_extra):
        import threading

        subject()
        from gufo.snmp.sync_client import SnmpSession

        self.cfg = cfg
        self.agent = new_agent_socket(blocking=True)
        self.agent.settimeout(0.05)
        self.port = self.agent.getsockname()[1]
        self.requests = []
        self.responder = responder
        self.errors = []
        self._stop = False
        self._thr = threading.Thread(target=self._serve, daemon=True)
        self._thr.start()
        kw = session_kwargs(cfg, self.port, timeout)
        kw.update(session_extra)
        self.session = SnmpSession(**kw)

    def _serve(self):
        while not self._stop:
            try:
                data, addr = self.agent.recvfrom(65535)
            except socket.timeout:
                continue
            except OSError:
                return
            if self._stop:
                return
            idx = len(self.requests)
            self.requests.append(data)
            try:
                for rep in self.responder(data, idx) or ():
                    self.agent.sendto(rep, addr)
            except Exception as e:  # noqa: BLE001
                self.errors.append(repr(e))

    def close(self):
        self._stop = True
        try:  # wake the agent thread instead of waiting for its poll interval
            s = socket.socket(socket.AF_INET, socket.SOCK_DGRAM)
            s.sendto(b"", ("127.0.0.1", self.port))
            s.close()
        except OSError:
            pass
        self._thr.join(1.0)
        self.agent.close()
        self.session = None


def run_async(cfg, responder, client_coro_factory, timeout=3.0, loop_factory=None, **session_extra):
    """Run `await client_coro_factory(session)` on an event loop that also hosts the agent.

    Returns (result Outcome, list of captured requests, agent errors).
    """
    import asyncio

    subject()
    from gufo.snmp import SnmpSession

    agent = new_agent_socket(blocking=False)
    port = agent.getsockname()[1]
    requests = []
    errors = []

    def on_readable():
        while True:
            try:
                data, addr = agent.recvfrom(65535)
            except BlockingIOError:
                return
            idx = len(requests)
            requests.append(data)
            try:
                for rep in responder(data, idx) or ():
                    agent.sendto(rep, addr)
            except Exception as e:  # noqa: BLE001
                errors.append(repr(e))

    async def main():
        loop = asyncio.get_running_loop()
        loop.add_reader(agent.fileno(), on_readable)
        try:
            kw = session_kwargs(cfg, port, timeout)
            kw.update(session_extra)
            session = SnmpSession(**kw)
            session._verif_kw = kw  # lets a client coroutine open a second session to the same agent
            return await client_coro_factory(session)
        finally:
            loop.remove_reader(agent.fileno())

    loop = (loop_factory or asyncio.new_event_loop)()
    try:
        try:
            out = Outcome("ok", loop.run_until_complete(main()))
        except BaseException as e:  # noqa: BLE001
            if isinstance(e, (KeyboardInterrupt, SystemExit, MemoryError)):
                raise
            out = Outcome("exc", exc=e)
    finally:
        try:
            loop.run_until_complete(loop.shutdown_asyncgens())
        except Exception:  # noqa: BLE001
            pass
        loop.close()
        agent.close()
    return out, requests, errors
