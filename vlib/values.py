"""Value model shared by the checks: (kind, encoded TLV, expected Python value)."""

import math

from . import refber as rb

# kinds whose varbind carries "real data"
DATA_KINDS = (
    "int",
    "octets",
    "oid",
    "objdesc",
    "real",
    "ipaddr",
    "counter32",
    "gauge32",
    "timeticks",
    "opaque",
    "counter64",
    "uint32",
    "bool",
)
NULL_KIND = "null"
EXC_KINDS = ("nosuchobject", "nosuchinstance", "endofmibview")
ALL_KINDS = DATA_KINDS + (NULL_KIND,) + EXC_KINDS

APP = {"ipaddr": 0x40, "counter32": 0x41, "gauge32": 0x42, "timeticks": 0x43, "opaque": 0x44, "counter64": 0x46, "uint32": 0x47}


class V:
    __slots__ = ("kind", "tlv", "py", "note")

    def __init__(self, kind, tlv, py, note=""):
        self.kind = kind
        self.tlv = tlv
        self.py = py
        self.note = note

    def __repr__(self):
        return "V(%s,%s)" % (self.kind, self.tlv.hex())


def v_int(v, form=None):
    return V("int", rb.enc_int(v, form), v)


def v_unsigned(kind, v, pad=0, form=None):
    return V(kind, rb.tlv(APP[kind], rb.unsigned_content(v, pad), form), v)


def v_unsigned_raw(kind, content, py):
    return V(kind, rb.tlv(APP[kind], content), py)


def v_octets(b, kind="octets", form=None):
    tag = {"octets": 0x04, "opaque": 0x44, "objdesc": 0x07}[kind]
    return V(kind, rb.tlv(tag, bytes(b), form), bytes(b))


def v_oid(arcs):
    return V("oid", rb.enc_oid(arcs), rb.oid_str(arcs))


def v_ip(a, b, c, d):
    return V("ipaddr", rb.tlv(0x40, bytes([a, b, c, d])), "%d.%d.%d.%d" % (a, b, c, d))


def v_bool(octet):
    return V("bool", rb.tlv(0x01, bytes([octet])), octet != 0)


def v_null():
    return V("null", b"\x05\x00", None)


def v_exc(kind):
    tag = {"nosuchobject": 0x80, "nosuchinstance": 0x81, "endofmibview": 0x82}[kind]
    return V(kind, bytes([tag, 0]), None)


def v_real_content(content, py, note=""):
    return V("real", rb.tlv(0x09, content), py, note)


def v_real_decimal(nr, text):
    return v_real_content(rb.real_decimal(nr, text), float(text), "dec:%s" % text)


def v_real_binary(sign, mantissa, base, f, exponent, exp_len=None):
    fr = rb.real_binary_value(sign, mantissa, base, f, exponent)
    py = rb.fraction_to_float(fr)
    if mantissa == 0 and sign < 0:
        py = -0.0
    return v_real_content(
        rb.real_binary(sign, mantissa, base, f, exponent, exp_len),
        py,
        "bin:s%d m%d b%d f%d e%d" % (sign, mantissa, base, f, exponent),
    )


def representative(kind):
    """One ordinary value per kind (used where the kind matters, not the value)."""
    return {
        "int": lambda: v_int(42),
        "octets": lambda: v_octets(b"hi"),
        "oid": lambda: v_oid((1, 3, 6, 1, 4, 1, 2011)),
        "objdesc": lambda: v_octets(b"descr", "objdesc"),
        "real": lambda: v_real_decimal(1, "17"),
        "ipaddr": lambda: v_ip(10, 0, 0, 1),
        "counter32": lambda: v_unsigned("counter32", 7),
        "gauge32": lambda: v_unsigned("gauge32", 300),
        "timeticks": lambda: v_unsigned("timeticks", 70000),
        "opaque": lambda: v_octets(b"\x9f\x78", "opaque"),
        "counter64": lambda: v_unsigned("counter64", 1 << 40),
        "uint32": lambda: v_unsigned("uint32", 5),
        "bool": lambda: v_bool(0xFF),
        "null": v_null,
        "nosuchobject": lambda: v_exc("nosuchobject"),
        "nosuchinstance": lambda: v_exc("nosuchinstance"),
        "endofmibview": lambda: v_exc("endofmibview"),
    }[kind]()


def py_equal(expected, got, tolerance_ulp=0):
    """Type- and value-exact comparison of a delivered Python value with the model."""
    if isinstance(expected, bool) or isinstance(got, bool):
        return type(expected) is type(got) and expected == got
    if isinstance(expected, float):
        if not isinstance(got, float):
            return False
        if math.isnan(expected):
            return math.isnan(got)
        if expected == 0.0 and got == 0.0:
            return math.copysign(1, expected) == math.copysign(1, got)
        if math.isinf(expected) or math.isinf(got):
            return expected == got
        return rb.ulp_diff(expected, got) <= tolerance_ulp
    return type(expected) is type(got) and expected == got


def show(x):
    if isinstance(x, (bytes, bytearray)):
        return "bytes:" + bytes(x).hex()
    return repr(x)
