"""History runner: sequences of API calls / replies on one or two real sessions that share
the process-wide buffer pool; every emitted datagram goes through reqoracle."""

from . import drivers, refber as rb, values
from .drivers import Cfg
from .reqoracle import Call, SessionModel, check_request

OIDS = {
    "sys": (1, 3, 6, 1, 2, 1, 1, 5, 0),
    "two": (1, 3),
    "zero": (0, 0),
    "big": (2, 39, 4294967295, 16384, 16383, 128, 127, 0, 2097152, 268435456),
    "long": (1, 3, 6, 1, 4, 1) + tuple(range(200, 322)),  # 128 arcs, many two-octet
    "mid": (1, 3, 6, 1, 4, 1, 9, 9, 42, 1, 2, 3, 4, 5, 6, 7, 8, 9, 10, 11, 12, 13, 14, 15, 16),
}
OID_LISTS = {
    "none": [],
    "one": ["sys"],
    "pair": ["big", "two"],
    "forty": ["mid"] * 20 + ["sys"] * 20,
}


def oid_list(name):
    return [OIDS[n] for n in OID_LISTS[name]]


def oversize_list():
    return [OIDS["long"]] * 40  # ~40*190 octets > any plausible buffer


class Sess:
    def __init__(self, cfg):
        mod, fast = drivers.subject()
        self.cfg = cfg
        self.w = drivers.SplitWorld(cfg)
        self.model = SessionModel(cfg)
        self.last_req = None
        self.last_call = None
        self.last_op = None
        self.last_iter = None
        self.reply_no = 0

    def close(self):
        self.w.close()


class Runner:
    """Executes a history; collects problems [(clause, text, step_index)]."""

    def __init__(self, cfgs, clauses):
        self.sessions = [Sess(c) for c in cfgs]
        self.clauses = clauses
        self.problems = []
        self.datagrams = 0
        self.api_calls = 0
        self.step_no = 0
        self.sizes = []

    def close(self):
        for s in self.sessions:
            s.close()

    def bad(self, clause, text):
        if clause in self.clauses:
            self.problems.append((clause, text, self.step_no))

    def run(self, history):
        for i, act in enumerate(history):
            self.step_no = i
            self.step(act)
        return self.problems

    # -- one action
    def step(self, act):
        mod, fast = drivers.subject()
        kind = act[0]
        s = self.sessions[act[1]]
        w = s.w
        if kind in ("get", "get_many", "getnext", "getbulk", "refresh", "oversize"):
            if kind == "refresh" and s.cfg.version != "v3":
                return
            call, it = None, None
            if kind == "get":
                call = Call("get", [OIDS[act[2]]])
                out = w.send("get", rb.oid_str(OIDS[act[2]]))
            elif kind == "get_many":
                oids = oid_list(act[2])
                call = Call("get_many", oids)
                out = w.send("get_many", [rb.oid_str(o) for o in oids])
            elif kind == "getnext":
                call = Call("getnext", [OIDS[act[2]]])
                it = fast.GetIter(rb.oid_str(OIDS[act[2]]))
                out = w.send("getnext", it=it)
            elif kind == "getbulk":
                call = Call("getbulk", [OIDS[act[2]]], max_rep=act[3])
                it = fast.GetIter(rb.oid_str(OIDS[act[2]]), act[3])
                out = w.send("getbulk", it=it)
            elif kind == "refresh":
                call = Call("refresh", [])
                out = w.send("refresh")
            else:
                oids = oversize_list()
                out = w.send("get_many", [rb.oid_str(o) for o in oids])
                self.api_calls += 1
                if out.kind != "exc" or not isinstance(out.exc, fast.SnmpEncodeError):
                    self.bad("size", "oversize request: expected SnmpEncodeError, got %r" % (out.brief(),))
                stray = w.take_request(wait=0.002)
                if stray is not None:
                    self.bad("size", "oversize request raised but %d octets were sent" % len(stray))
                return
            self.api_calls += 1
            if out.kind != "ok":
                self.bad("wire", "%s failed to send: %r" % (kind, out.brief()))
                return
            data = w.take_request()
            if data is None:
                self.bad("wire", "%s returned but nothing reached the agent" % kind)
                return
            self.datagrams += 1
            self.sizes.append(len(data))
            req, probs = check_request(s.cfg, call, data, s.model if s.cfg.version == "v3" else None, self.clauses)
            for c, t in probs:
                self.problems.append((c, t + " [%s on %s, %d octets]" % (kind, s.cfg.name, len(data)), self.step_no))
            if w.take_request(wait=0) is not None:
                self.bad("wire", "more than one datagram emitted for one call")
            if req is not None and req.pdu_tag is not None:
                s.last_req, s.last_call, s.last_op, s.last_iter = req, call, kind, it
            else:
                s.last_req = None
            return
        if kind == "reply":
            if s.last_req is None:
                return
            req = s.last_req
            op = {"refresh": "refresh", "get": "get", "get_many": "get_many", "getnext": "getnext", "getbulk": "getbulk"}[s.last_op]
            how = act[2]
            s.reply_no += 1
            if how == "garbage":
                w.inject(b"\x30\x03\x02\x01")
                out = w.recv(op, s.last_iter)
                self.api_calls += 1
                return
            boots, time = req.boots, req.time
            if s.cfg.version == "v3" and how in ("ok", "report"):
                boots, time = _clock(s.reply_no, act[3] if len(act) > 3 else 0)
            if how == "report":
                if s.cfg.version != "v3":
                    return
                vb = [((1, 3, 6, 1, 6, 3, 15, 1, 1, 2, 0), values.v_unsigned("counter32", 9).tlv)]
                rep = drivers.reply_for(s.cfg, req, vb, pdu_tag=rb.PDU_REPORT, boots=boots, time=time, flags=0)
            else:
                oid = req.oids[0] + (1,) if req.oids else (1, 3, 6, 1, 2, 1, 1, 1, 0)
                rep = drivers.reply_for(s.cfg, req, [(oid, rb.enc_int(s.reply_no))], boots=boots, time=time)
            w.inject(rep)
            out = w.recv(op, s.last_iter)
            self.api_calls += 1
            accepted = out.kind == "ok" or isinstance(out.exc, (fast.SnmpAuthError, StopAsyncIteration))
            if out.kind == "exc" and not accepted:
                self.bad("wire", "valid reply not accepted: %r" % (out.brief(),))
            if accepted and s.cfg.version == "v3":
                s.model.accept(req.engine_id or s.cfg.engine_id, boots, time)
            return
        if kind == "timeout":
            w.flush_client_queue()
            return
        raise ValueError(act)


def _clock(n, variant):
    table = [
        (1, 1000 + n),
        (0x7FFFFFFF, 0x7FFFFFFF),
        (128, 32768),
        (0, 0),
        (255, 8388608),
        (32767, 127),
    ]
    return table[variant % len(table)]


def run_history(cfg_descs, history, clauses):
    cfgs = [Cfg.from_desc(d) for d in cfg_descs]
    r = Runner(cfgs, clauses)
    try:
        probs = r.run(history)
        return probs, r
    finally:
        r.close()
