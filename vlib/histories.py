"""History runner: sequences of API calls / replies on one or two real sessions that share
the process-wide buffer pool; every emitted datagram goes through reqoracle."""

from . import drivers, refber as rb, values
from .drivers import Cfg
from .reqoracle import Call, SessionModel, check_request

OIDS = {
    "sys": (1, 3, 6, 1, 2, 1, 1, 5, 0),
    "two": (1, 3),
    "zero": (0, 0),
    "big": (2, 39, 4294967295, 16384, 16383, 128, 127, 0, 2097152, 268435456),
    "long": (1, 3, 6, 1, 4, 1) + tuple(range(200, 322)),  # 128 arcs, many two-octet
    "mid": (1, 3, 6, 1, 4, 1, 9, 9, 42, 1, 2, 3, 4, 5, 6, 7, 8, 9, 10, 11, 12, 13, 14, 15, 16),
}
OID_LISTS = {
    "none": [],
    "one": ["sys"],
    "pair": ["big", "two"],
    "forty": ["mid"] * 20 + ["sys"] * 20,
}


def oid_list(name):
    return [OIDS[n] for n in OID_LISTS[name]]


def oid_n(n):
    """An OID of n one-octet arcs (encoded content is n-1 octets)."""
    return (1, 3) + (1,) * (n - 2)


def oversize_list():
    return [OIDS["long"]] * 40  # ~40*190 octets > any plausible buffer


class Sess:
    def __init__(self, cfg, force_salt=None):
        mod, fast = drivers.subject()
        self.cfg = cfg
        self.force_salt = force_salt
        force = getattr(fast, "_verif_rng_force", None)
        if force_salt is not None and force is not None and cfg.version == "v3" and cfg.priv and not cfg.discover:
            force([force_salt])
        try:
            self.w = drivers.SplitWorld(cfg)
        finally:
            if force is not None:
                force([])
        self.model = SessionModel(cfg)
        self.last_req = None
        self.last_call = None
        self.last_op = None
        self.last_iter = None
        self.reply_no = 0
        self.installation = 0
        if cfg.version == "v3" and cfg.discover:
            self.model.no_keys_yet = True
            self.model.user = b""

    def close(self):
        self.w.close()


class Runner:
    """Executes a history; collects problems [(clause, text, step_index)]."""

    def __init__(self, cfgs, clauses, force_salt=None, pin_ids=False):
        self.pin_ids = pin_ids
        self.sessions = [Sess(c, force_salt) for c in cfgs]
        self.clauses = clauses
        self.problems = []
        self.datagrams = 0
        self.api_calls = 0
        self.step_no = 0
        self.sizes = []
        self.trace = []  # one dict per emitted datagram

    def close(self):
        for s in self.sessions:
            s.close()

    def bad(self, clause, text):
        if clause in self.clauses:
            self.problems.append((clause, text, self.step_no))

    def run(self, history):
        mod, fast = drivers.subject()
        force = getattr(fast, "_verif_rng_force", None) if self.pin_ids else None
        for i, act in enumerate(history):
            self.step_no = i
            if force is not None and act[0] not in ("set_keys", "set_keys_bad", "discover", "reply", "timeout", "sleep"):
                force([0x12345678, 0x23456789])  # request-id, msgID: fixed width
            try:
                self.step(act)
            finally:
                if force is not None:
                    force([])
        return self.problems

    # -- one action
    def step(self, act):
        mod, fast = drivers.subject()
        kind = act[0]
        s = self.sessions[act[1]]
        w = s.w
        if kind == "discover":
            return self.discover(s, act[2] if len(act) > 2 else 0)
        if kind == "sleep":
            import time as _time

            _time.sleep(act[2])  # real time passes; the session must not let it leak into what it sends
            return
        if kind == "set_keys":
            eid, user, a_alg, a_key, p_alg, p_key = s.cfg.raw_args(s.model.engine_id or s.cfg.engine_id)
            force = getattr(fast, "_verif_rng_force", None)
            if s.force_salt is not None and force is not None and s.cfg.priv:
                force([s.force_salt])
            out = drivers.call(w.sock.set_keys, user, a_alg, a_key, p_alg, p_key)
            if force is not None:
                force([])
            self.api_calls += 1
            if out.kind != "ok":
                self.bad("wire", "set_keys failed: %r" % (out.brief(),))
            s.installation += 1
            return
        if kind == "set_keys_bad":
            # a key installation that must be refused; the session keeps its keys, salt counter and installation
            eid, user, a_alg, a_key, p_alg, p_key = s.cfg.raw_args(s.model.engine_id or s.cfg.engine_id)
            how = act[2]
            need = {1: 16, 2: 20}.get(s.cfg.auth, 16)
            if how == "privlen":
                p_alg, p_key = (s.cfg.priv | (drivers.KT_LOCALIZED << 6)), bytes(range(1, need - 3))
            elif how == "privempty":
                p_alg, p_key = (s.cfg.priv | (drivers.KT_PASSWORD << 6)), b""
            elif how == "authlen":
                a_alg, a_key = (s.cfg.auth | (drivers.KT_LOCALIZED << 6)), bytes(range(1, need + 5))
            elif how == "privalg":
                p_alg = 3
            out = drivers.call(w.sock.set_keys, user, a_alg, a_key, p_alg, p_key)
            self.api_calls += 1
            if out.kind != "exc" or not isinstance(out.exc, ValueError):
                self.bad("keys", "set_keys with %s was not refused with ValueError: %r" % (how, out.brief()))
                if out.kind == "ok":
                    s.installation += 1
            return
        if kind in ("get", "get_many", "getnext", "getbulk", "refresh", "oversize", "get_n", "get_many_kn"):
            if kind == "refresh" and s.cfg.version != "v3":
                return
            call, it = None, None
            if kind == "get":
                call = Call("get", [OIDS[act[2]]])
                out = w.send("get", rb.oid_str(OIDS[act[2]]))
            elif kind == "get_n":
                call = Call("get", [oid_n(act[2])])
                out = w.send("get", rb.oid_str(oid_n(act[2])))
            elif kind == "get_many_kn":
                oids = [oid_n(128)] * act[2] + [oid_n(act[3])]
                call = Call("get_many", oids)
                out = w.send("get_many", [rb.oid_str(o) for o in oids])
            elif kind == "get_many":
                oids = oid_list(act[2])
                call = Call("get_many", oids)
                out = w.send("get_many", [rb.oid_str(o) for o in oids])
            elif kind in ("getnext", "getbulk"):
                call = Call("getnext", [OIDS[act[2]]]) if kind == "getnext" else Call("getbulk", [OIDS[act[2]]], max_rep=act[3])
                mk = drivers.call(fast.GetIter, rb.oid_str(OIDS[act[2]])) if kind == "getnext" else drivers.call(fast.GetIter, rb.oid_str(OIDS[act[2]]), act[3])
                if mk.kind != "ok":
                    self.api_calls += 1
                    self.bad("wire", "%s: the iterator refused the valid OID %s: %r" % (kind, rb.oid_str(OIDS[act[2]]), mk.brief()))
                    s.last_req = None
                    return
                it = mk.value
                out = w.send(kind, it=it)
            elif kind == "refresh":
                call = Call("refresh", [])
                out = w.send("refresh")
            else:
                oids = oversize_list()
                out = w.send("get_many", [rb.oid_str(o) for o in oids])
                self.api_calls += 1
                if out.kind != "exc" or not isinstance(out.exc, fast.SnmpEncodeError):
                    self.bad("size", "oversize request: expected SnmpEncodeError, got %r" % (out.brief(),))
                stray = w.take_request(wait=0.002)
                if stray is not None:
                    self.bad("size", "oversize request raised but %d octets were sent" % len(stray))
                else:
                    self.trace.append({"s": self.sessions.index(s), "inst": s.installation, "kind": "refused", "salt": None, "flags": None, "boots": None, "size": 0, "pad": None})
                return
            self.api_calls += 1
            if out.kind != "ok":
                self.bad("wire", "%s failed to send: %r" % (kind, out.brief()))
                return
            data = w.take_request()
            if data is None:
                self.bad("wire", "%s returned but nothing reached the agent" % kind)
                return
            self.datagrams += 1
            self.sizes.append(len(data))
            req, probs = check_request(s.cfg, call, data, s.model if s.cfg.version == "v3" else None, self.clauses)
            for c, t in probs:
                self.problems.append((c, t + " [%s on %s, %d octets]" % (kind, s.cfg.name, len(data)), self.step_no))
            self.trace.append(
                {
                    "s": act[1],
                    "inst": s.installation,
                    "size": len(data),
                    "salt": req.priv_params if req is not None and req.version == 3 else None,
                    "boots": s.model.boots,
                    "flags": req.flags if req is not None else None,
                    "kind": kind,
                    "pad": getattr(req, "padding", None) if req is not None else None,
                }
            )
            if w.take_request(wait=0) is not None:
                self.bad("wire", "more than one datagram emitted for one call")
            if req is not None and req.pdu_tag is not None and req.request_id is not None and req.oids is not None and None not in (req.a, req.b):
                s.last_req, s.last_call, s.last_op, s.last_iter = req, call, kind, it
            else:
                s.last_req = None
            return
        if kind == "reply":
            if s.last_req is None:
                return
            req = s.last_req
            op = {
                "refresh": "refresh",
                "get": "get",
                "get_n": "get",
                "get_many": "get_many",
                "get_many_kn": "get_many",
                "getnext": "getnext",
                "getbulk": "getbulk",
            }[s.last_op]
            how = act[2]
            s.reply_no += 1
            if how == "garbage":
                w.inject(b"\x30\x03\x02\x01")
                out = w.recv(op, s.last_iter)
                self.api_calls += 1
                return
            boots, time = req.boots, req.time
            payload = b""
            if s.cfg.version == "v3" and how in ("ok", "report"):
                boots, time = _clock(s.reply_no, act[3] if len(act) > 3 else 0)
            if how in ("ok-wronguser", "ok-wrongmsgid", "ok-wrongrid"):
                if s.cfg.version != "v3":
                    return
                kw = {}
                rid = None
                if how == "ok-wronguser":
                    kw["user"] = s.cfg.user + "2"
                elif how == "ok-wrongmsgid":
                    kw["msg_id"] = (req.msg_id + 1) & 0x7FFFFFFF
                else:
                    rid = (req.request_id + 1) & 0x7FFFFFFF
                rep = drivers.reply_for(s.cfg, req, [((1, 3, 6, 1, 2, 1, 1, 3, 0), rb.enc_int(5))], boots=99, time=9999, request_id=rid, auth=(how != "ok-wronguser"), **kw)
                w.inject(rep)
                out = w.recv(op, s.last_iter)
                self.api_calls += 1
                if not (out.kind == "exc" and isinstance(out.exc, BlockingIOError)):
                    self.bad("usm", "non-matching message (%s) was not skipped: %r" % (how, out.brief()))
                return
            if how in ("report-foreign", "ok-foreign"):
                # correct msgID / user / request-id, but from another authoritative engine
                if s.cfg.version != "v3":
                    return
                eid = s.model.engine_id or s.cfg.engine_id
                foreign = eid[:-1] + bytes([eid[-1] ^ 0x55])
                oid = (1, 3, 6, 1, 6, 3, 15, 1, 1, 4, 0)
                tag = rb.PDU_REPORT if how == "report-foreign" else rb.PDU_RESPONSE
                rep = drivers.reply_for(
                    s.cfg, req, [(oid, values.v_unsigned("counter32", 4).tlv)], pdu_tag=tag, engine_id=foreign, boots=77, time=7777, flags=0
                )
                w.inject(rep)
                out = w.recv(op, s.last_iter)
                self.api_calls += 1
                if not (out.kind == "exc" and isinstance(out.exc, BlockingIOError)):
                    self.bad("usm", "message from a foreign engine id was not skipped: %r" % (out.brief(),))
                return
            if how == "report":
                if s.cfg.version != "v3":
                    return
                vb = [((1, 3, 6, 1, 6, 3, 15, 1, 1, 2, 0), values.v_unsigned("counter32", 9).tlv)]
                rep = drivers.reply_for(s.cfg, req, vb, pdu_tag=rb.PDU_REPORT, boots=boots, time=time, flags=0)
            elif how == "partial":
                # authentic reply whose ciphertext is 8m+k octets: the last k octets of the (well-formed) scoped PDU
                # were never encrypted by the agent - whatever the client would "decrypt" there was not sent
                k = act[3]
                oid = req.oids[0] + (1,) if req.oids else (1, 3, 6, 1, 2, 1, 1, 1, 0)
                n = 24
                while True:
                    pdu = rb.build_pdu(rb.PDU_RESPONSE, req.request_id, 0, 0, [(oid, rb.enc_octets(b"p" * n))])
                    scoped = rb.build_scoped(req.engine_id or s.cfg.engine_id, b"", pdu)
                    if len(scoped) % 8 == k:
                        break
                    n += 1
                rep = drivers.seal_reply(s.cfg, req.msg_id, req.engine_id or s.cfg.engine_id, req.boots, req.time, scoped, partial_tail=k)
                w.inject(rep)
                out = w.recv(op, s.last_iter)
                self.api_calls += 1
                if out.kind == "ok":
                    self.bad("reply", "a reply whose ciphertext ends in %d octets belonging to no cipher block was delivered: %r" % (k, out.brief()))
                elif out.is_panic():
                    self.bad("reply", "partial-block reply raised %s" % out.exc_name)
                return
            elif how == "cut":
                # authentic reply whose scoped PDU lost its last k octets before the agent encrypted it (AES-CFB is a stream
                # mode, so this is simply a ciphertext k octets short): the inner lengths still announce the whole PDU, the
                # missing octets were never received - a value delivered here was completed from somewhere else
                n, k = act[3], act[4]
                oid = req.oids[0] + (1,) if req.oids else (1, 3, 6, 1, 2, 1, 1, 1, 0)
                payload = bytes((i * 7 + 3) & 0xFF for i in range(n))
                pdu = rb.build_pdu(rb.PDU_RESPONSE, req.request_id, 0, 0, [(oid, rb.enc_octets(payload))])
                scoped = rb.build_scoped(req.engine_id or s.cfg.engine_id, b"", pdu)
                rep = drivers.seal_reply(s.cfg, req.msg_id, req.engine_id or s.cfg.engine_id, req.boots, req.time, scoped[:-k])
                w.inject(rep)
                out = w.recv(op, s.last_iter)
                self.api_calls += 1
                if out.kind == "ok":
                    self.bad("reply", "a reply whose scoped PDU arrived %d octets short was delivered: %r" % (k, out.brief()))
                elif out.is_panic():
                    self.bad("reply", "short reply raised %s" % out.exc_name)
                return
            elif how == "octets":
                oid = req.oids[0] + (1,) if req.oids else (1, 3, 6, 1, 2, 1, 1, 1, 0)
                payload = bytes((i * 7 + 3) & 0xFF for i in range(act[3]))
                extra = {"pad": (act[4], False)} if len(act) > 4 and s.cfg.version == "v3" and s.cfg.priv else {}
                rep = drivers.reply_for(s.cfg, req, [(oid, rb.enc_octets(payload))], **extra)
            else:
                oid = req.oids[0] + (1,) if req.oids else (1, 3, 6, 1, 2, 1, 1, 1, 0)
                rep = drivers.reply_for(s.cfg, req, [(oid, rb.enc_int(s.reply_no))], boots=boots, time=time)
            w.inject(rep)
            out = w.recv(op, s.last_iter)
            self.api_calls += 1
            accepted = out.kind == "ok" or isinstance(out.exc, (fast.SnmpAuthError, StopAsyncIteration))
            if out.kind == "exc" and not accepted:
                self.bad("reply", "valid reply not accepted: %r" % (out.brief(),))
            if how == "ok" and op == "get" and out.kind == "ok" and out.value != s.reply_no:
                self.bad("reply", "reply carried INTEGER %d, caller got %r" % (s.reply_no, out.value))
            if how == "octets" and op == "get" and out.kind == "ok" and out.value != payload:
                self.bad("reply", "reply carried %d octets, caller got %r" % (len(payload), out.value if not isinstance(out.value, bytes) else "different bytes (%d)" % len(out.value)))
            if accepted and s.cfg.version == "v3":
                s.model.accept(req.engine_id or s.cfg.engine_id, boots, time)
            return
        if kind == "timeout":
            w.flush_client_queue()
            return
        raise ValueError(act)


def _discover(self, s, variant):
    """Engine-id discovery + key installation + time sync, as the public clients drive it."""
    mod, fast = drivers.subject()
    w, cfg = s.w, s.cfg
    anon = Cfg("v3", user="", engine_id=cfg.engine_id)
    # 1. probe without engine id
    out = w.send("refresh")
    self.api_calls += 1
    if out.kind != "ok":
        return self.bad("wire", "discovery probe failed: %r" % (out.brief(),))
    data = w.take_request()
    if data is None:
        return self.bad("wire", "discovery probe not sent")
    self.datagrams += 1
    req, probs = check_request(anon, Call("refresh", []), data, s.model, self.clauses)
    for c, t in probs:
        self.problems.append((c, t + " [discovery probe]", self.step_no))
    if req is None or req.request_id is None:
        return
    b0, t0 = _clock(1, variant)
    vb = [((1, 3, 6, 1, 6, 3, 15, 1, 1, 4, 0), values.v_unsigned("counter32", 1).tlv)]
    if variant >= 100:
        # deviations during discovery (300.. is handled below): 100.. = a stray Report from another engine with a non-matching msgID first;
        # 200.. = the first probe is lost (time-out) and the probe is repeated
        if variant >= 300:
            pass
        elif variant < 200:
            other = bytes([cfg.engine_id[0] ^ 0x7F]) + cfg.engine_id[1:] + b"x"
            stray = drivers.reply_for(anon, req, vb, pdu_tag=rb.PDU_REPORT, engine_id=other, boots=5, time=5, flags=0, user="", msg_id=(req.msg_id + 1) & 0x7FFFFFFF)
            w.inject(stray)
            out = w.recv("refresh")
            self.api_calls += 1
            if not (out.kind == "exc" and isinstance(out.exc, BlockingIOError)):
                self.bad("usm", "stray Report with a non-matching msgID was not skipped during discovery: %r" % (out.brief(),))
        else:
            out = w.send("refresh")
            self.api_calls += 1
            data = w.take_request()
            if out.kind != "ok" or data is None:
                return self.bad("wire", "repeated discovery probe failed: %r" % (out.brief(),))
            self.datagrams += 1
            req, probs = check_request(anon, Call("refresh", []), data, s.model, self.clauses)
            for c, t in probs:
                self.problems.append((c, t + " [repeated discovery probe]", self.step_no))
            if req is None or req.request_id is None:
                return
    extra = {}
    if 300 <= variant < 400:
        # 300.. = the Report's contextEngineID differs from msgAuthoritativeEngineID (legal: RFC 3411 keeps them apart)
        extra["ctx_engine_id"] = b"\x80\x00\x1f\x88\x04ctx-" + cfg.engine_id[-3:]
    rep = drivers.reply_for(anon, req, vb, pdu_tag=rb.PDU_REPORT, engine_id=cfg.engine_id, boots=b0, time=t0, flags=0, user="", **extra)
    w.inject(rep)
    out = w.recv("refresh")
    self.api_calls += 1
    if out.kind != "ok":
        return self.bad("usm", "discovery Report not accepted: %r" % (out.brief(),))
    s.model.accept(cfg.engine_id, b0, t0)
    # 2. install the real user and keys
    eid, user, a_alg, a_key, p_alg, p_key = cfg.raw_args(cfg.engine_id)
    force = getattr(fast, "_verif_rng_force", None)
    if s.force_salt is not None and force is not None and cfg.priv:
        force([s.force_salt])
    out = drivers.call(w.sock.set_keys, user, a_alg, a_key, p_alg, p_key)
    if force is not None:
        force([])
    self.api_calls += 1
    if out.kind != "ok":
        return self.bad("usm", "set_keys failed: %r" % (out.brief(),))
    s.model.no_keys_yet = False
    del s.model.user
    s.installation += 1
    got = drivers.call(w.sock.get_engine_id)
    if got.kind != "ok" or got.value != cfg.engine_id:
        self.bad("usm", "get_engine_id() returned %r after discovery, agent is %s" % (got.brief(), cfg.engine_id.hex()))
    # 3. time synchronisation probe with the real keys
    out = w.send("refresh")
    self.api_calls += 1
    if out.kind != "ok":
        return self.bad("wire", "time-sync probe failed: %r" % (out.brief(),))
    data = w.take_request()
    if data is None:
        return self.bad("wire", "time-sync probe not sent")
    self.datagrams += 1
    req, probs = check_request(cfg, Call("refresh", []), data, s.model, self.clauses)
    for c, t in probs:
        self.problems.append((c, t + " [time-sync probe after discovery on %s]" % cfg.name, self.step_no))
    self.trace.append({"s": self.sessions.index(s), "inst": s.installation, "size": len(data), "salt": req.priv_params if req else None, "boots": s.model.boots, "flags": req.flags if req else None, "kind": "refresh"})
    if req is None or req.request_id is None:
        return
    b1, t1 = _clock(2, variant + 1)
    vb = [((1, 3, 6, 1, 6, 3, 15, 1, 1, 2, 0), values.v_unsigned("counter32", 2).tlv)]
    rep = drivers.reply_for(cfg, req, vb, pdu_tag=rb.PDU_REPORT, boots=b1, time=t1, flags=1 if cfg.auth else 0)
    w.inject(rep)
    out = w.recv("refresh")
    self.api_calls += 1
    if out.kind != "ok":
        return self.bad("usm", "time-sync Report not accepted: %r" % (out.brief(),))
    s.model.accept(cfg.engine_id, b1, t1)


Runner.discover = _discover


def _clock(n, variant):
    table = [
        (1, 1000 + n),
        (0x7FFFFFFF, 0x7FFFFFFF),
        (128, 32768),
        (0, 0),
        (255, 8388608),
        (32767, 127),
    ]
    return table[variant % len(table)]


def run_history(cfg_descs, history, clauses, force_salt=None, pin_ids=False):
    cfgs = [Cfg.from_desc(d) for d in cfg_descs]
    r = Runner(cfgs, clauses, force_salt, pin_ids)
    try:
        probs = r.run(history)
        return probs, r
    finally:
        r.close()
