"""RFC 3416 reference agent over a sorted MIB (GetNext / GetBulk / Get), v1 flavour included."""

import bisect

from . import drivers, refber as rb


class Mib:
    def __init__(self, entries):
        """entries: list of (arcs tuple, value TLV bytes, python value)."""
        self.entries = sorted(entries, key=lambda e: e[0])
        self.keys = [e[0] for e in self.entries]

    def successor(self, oid):
        i = bisect.bisect_right(self.keys, tuple(oid))
        return self.entries[i] if i < len(self.entries) else None

    def below(self, base):
        base = tuple(base)
        n = len(base)
        return [e for e in self.entries if len(e[0]) > n and e[0][:n] == base]


class RefAgent:
    """Answers strictly decoded requests. cap = agent-side limit on repetitions."""

    def __init__(self, cfg, mib, cap=None):
        self.cfg = cfg
        self.mib = mib
        self.cap = cap
        self.log = []  # (pdu_tag, oid, max_rep)
        self.ended = False  # an end-of-walk answer has been given
        self.after_end = 0

    def __call__(self, data, idx=None):
        req = drivers.open_request(self.cfg, data)
        if self.ended:
            self.after_end += 1
        self.log.append((req.pdu_tag, req.oids[0] if req.oids else None, req.b))
        return [self.answer(req)]

    def answer(self, req):
        cfg = self.cfg
        v1 = req.version == 0
        if req.pdu_tag == rb.PDU_GETNEXT:
            vbs = []
            for oid in req.oids:
                e = self.mib.successor(oid)
                if e is None:
                    self.ended = True
                    if v1:
                        return drivers.reply_for(cfg, req, [(o, rb.enc_null()) for o in req.oids], error_status=2, error_index=1)
                    vbs.append((oid, b"\x82\x00"))
                else:
                    vbs.append((e[0], e[1]))
            return drivers.reply_for(cfg, req, vbs)
        if req.pdu_tag == rb.PDU_GETBULK:
            n = max(0, req.b)
            if self.cap is not None:
                n = min(n, self.cap)
            oid = req.oids[0]
            vbs = []
            for _ in range(n):
                if len(vbs) >= (64 if self.cap is None or self.cap <= 64 else self.cap):
                    break  # RFC 3416 4.2.3: fewer repetitions when the response would exceed the message size
                e = self.mib.successor(oid)
                if e is None:
                    self.ended = True
                    vbs.append((oid, b"\x82\x00"))
                else:
                    vbs.append((e[0], e[1]))
                    oid = e[0]
            return drivers.reply_for(cfg, req, vbs)
        # Get
        vbs = []
        for oid in req.oids:
            hit = [e for e in self.mib.entries if e[0] == oid]
            vbs.append((oid, hit[0][1] if hit else b"\x81\x00"))
        return drivers.reply_for(cfg, req, vbs)
