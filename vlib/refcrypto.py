"""Reference USM crypto (RFC 3414 / RFC 3826), independent of /repo/src.

* key derivation (A.2) and HMAC-96 via hashlib / hmac (CPython),
* DES (FIPS 46-3) and AES-128 (FIPS 197) single-block primitives in pure Python,
  cross-validated at start-up against FIPS vectors and against OpenSSL's libcrypto block
  functions (ctypes), which then serve as the fast path,
* CBC / CFB-128 chaining, IV and salt rules written here from the RFCs.
"""

import ctypes
import ctypes.util
import hashlib
import hmac as _hmac

MD5, SHA1 = 1, 2
DES, AES = 1, 2
_HASH = {MD5: hashlib.md5, SHA1: hashlib.sha1}
KEYLEN = {MD5: 16, SHA1: 20}

# ------------------------------------------------------------------ RFC 3414 A.2


def password_to_key(alg, password):
    """RFC 3414 A.2.1/A.2.2 in the RFC's own 64-octet-chunk formulation."""
    if not password:
        raise ValueError("empty password")
    h = _HASH[alg]()
    plen = len(password)
    idx = 0
    count = 0
    # feed in 64-octet chunks until 1 MiB has been hashed (done in larger slabs for speed,
    # each slab being a whole number of the RFC's 64-octet chunks)
    slab_chunks = 1024
    while count < 1048576:
        n = min(slab_chunks * 64, 1048576 - count)
        buf = bytearray(n)
        for i in range(n):
            buf[i] = password[idx % plen]
            idx += 1
        # speed: once idx wrapped, fill by slicing a doubled pattern
        h.update(bytes(buf))
        count += n
    return h.digest()


def password_to_key_fast(alg, password):
    """Same function, computed by repeating the password (used after cross-check)."""
    if not password:
        raise ValueError("empty password")
    plen = len(password)
    reps = 1048576 // plen + 2
    stream = (password * reps)[:1048576]
    return _HASH[alg](stream).digest()


def localize(alg, key, engine_id):
    return _HASH[alg](key + engine_id + key).digest()


def hmac96(alg, key, msg):
    return _hmac.new(key, msg, _HASH[alg]).digest()[:12]


def mac_of_message(alg, key, datagram, auth_off):
    """HMAC-96 over the whole message with the 12 auth octets zeroed."""
    z = bytearray(datagram)
    z[auth_off : auth_off + 12] = b"\x00" * 12
    return hmac96(alg, key, bytes(z))


# ------------------------------------------------------------------ DES (FIPS 46-3)

_IP = [58, 50, 42, 34, 26, 18, 10, 2, 60, 52, 44, 36, 28, 20, 12, 4,
       62, 54, 46, 38, 30, 22, 14, 6, 64, 56, 48, 40, 32, 24, 16, 8,
       57, 49, 41, 33, 25, 17, 9, 1, 59, 51, 43, 35, 27, 19, 11, 3,
       61, 53, 45, 37, 29, 21, 13, 5, 63, 55, 47, 39, 31, 23, 15, 7]
_FP = [40, 8, 48, 16, 56, 24, 64, 32, 39, 7, 47, 15, 55, 23, 63, 31,
       38, 6, 46, 14, 54, 22, 62, 30, 37, 5, 45, 13, 53, 21, 61, 29,
       36, 4, 44, 12, 52, 20, 60, 28, 35, 3, 43, 11, 51, 19, 59, 27,
       34, 2, 42, 10, 50, 18, 58, 26, 33, 1, 41, 9, 49, 17, 57, 25]
_E = [32, 1, 2, 3, 4, 5, 4, 5, 6, 7, 8, 9, 8, 9, 10, 11, 12, 13,
      12, 13, 14, 15, 16, 17, 16, 17, 18, 19, 20, 21, 20, 21, 22, 23, 24, 25,
      24, 25, 26, 27, 28, 29, 28, 29, 30, 31, 32, 1]
_P = [16, 7, 20, 21, 29, 12, 28, 17, 1, 15, 23, 26, 5, 18, 31, 10,
      2, 8, 24, 14, 32, 27, 3, 9, 19, 13, 30, 6, 22, 11, 4, 25]
_PC1 = [57, 49, 41, 33, 25, 17, 9, 1, 58, 50, 42, 34, 26, 18,
        10, 2, 59, 51, 43, 35, 27, 19, 11, 3, 60, 52, 44, 36,
        63, 55, 47, 39, 31, 23, 15, 7, 62, 54, 46, 38, 30, 22,
        14, 6, 61, 53, 45, 37, 29, 21, 13, 5, 28, 20, 12, 4]
_PC2 = [14, 17, 11, 24, 1, 5, 3, 28, 15, 6, 21, 10,
        23, 19, 12, 4, 26, 8, 16, 7, 27, 20, 13, 2,
        41, 52, 31, 37, 47, 55, 30, 40, 51, 45, 33, 48,
        44, 49, 39, 56, 34, 53, 46, 42, 50, 36, 29, 32]
_SHIFTS = [1, 1, 2, 2, 2, 2, 2, 2, 1, 2, 2, 2, 2, 2, 2, 1]
_S = [
    [14, 4, 13, 1, 2, 15, 11, 8, 3, 10, 6, 12, 5, 9, 0, 7, 0, 15, 7, 4, 14, 2, 13, 1, 10, 6, 12, 11, 9, 5, 3, 8,
     4, 1, 14, 8, 13, 6, 2, 11, 15, 12, 9, 7, 3, 10, 5, 0, 15, 12, 8, 2, 4, 9, 1, 7, 5, 11, 3, 14, 10, 0, 6, 13],
    [15, 1, 8, 14, 6, 11, 3, 4, 9, 7, 2, 13, 12, 0, 5, 10, 3, 13, 4, 7, 15, 2, 8, 14, 12, 0, 1, 10, 6, 9, 11, 5,
     0, 14, 7, 11, 10, 4, 13, 1, 5, 8, 12, 6, 9, 3, 2, 15, 13, 8, 10, 1, 3, 15, 4, 2, 11, 6, 7, 12, 0, 5, 14, 9],
    [10, 0, 9, 14, 6, 3, 15, 5, 1, 13, 12, 7, 11, 4, 2, 8, 13, 7, 0, 9, 3, 4, 6, 10, 2, 8, 5, 14, 12, 11, 15, 1,
     13, 6, 4, 9, 8, 15, 3, 0, 11, 1, 2, 12, 5, 10, 14, 7, 1, 10, 13, 0, 6, 9, 8, 7, 4, 15, 14, 3, 11, 5, 2, 12],
    [7, 13, 14, 3, 0, 6, 9, 10, 1, 2, 8, 5, 11, 12, 4, 15, 13, 8, 11, 5, 6, 15, 0, 3, 4, 7, 2, 12, 1, 10, 14, 9,
     10, 6, 9, 0, 12, 11, 7, 13, 15, 1, 3, 14, 5, 2, 8, 4, 3, 15, 0, 6, 10, 1, 13, 8, 9, 4, 5, 11, 12, 7, 2, 14],
    [2, 12, 4, 1, 7, 10, 11, 6, 8, 5, 3, 15, 13, 0, 14, 9, 14, 11, 2, 12, 4, 7, 13, 1, 5, 0, 15, 10, 3, 9, 8, 6,
     4, 2, 1, 11, 10, 13, 7, 8, 15, 9, 12, 5, 6, 3, 0, 14, 11, 8, 12, 7, 1, 14, 2, 13, 6, 15, 0, 9, 10, 4, 5, 3],
    [12, 1, 10, 15, 9, 2, 6, 8, 0, 13, 3, 4, 14, 7, 5, 11, 10, 15, 4, 2, 7, 12, 9, 5, 6, 1, 13, 14, 0, 11, 3, 8,
     9, 14, 15, 5, 2, 8, 12, 3, 7, 0, 4, 10, 1, 13, 11, 6, 4, 3, 2, 12, 9, 5, 15, 10, 11, 14, 1, 7, 6, 0, 8, 13],
    [4, 11, 2, 14, 15, 0, 8, 13, 3, 12, 9, 7, 5, 10, 6, 1, 13, 0, 11, 7, 4, 9, 1, 10, 14, 3, 5, 12, 2, 15, 8, 6,
     1, 4, 11, 13, 12, 3, 7, 14, 10, 15, 6, 8, 0, 5, 9, 2, 6, 11, 13, 8, 1, 4, 10, 7, 9, 5, 0, 15, 14, 2, 3, 12],
    [13, 2, 8, 4, 6, 15, 11, 1, 10, 9, 3, 14, 5, 0, 12, 7, 1, 15, 13, 8, 10, 3, 7, 4, 12, 5, 6, 11, 0, 14, 9, 2,
     7, 11, 4, 1, 9, 12, 14, 2, 0, 6, 10, 13, 15, 3, 5, 8, 2, 1, 14, 7, 4, 10, 8, 13, 15, 12, 9, 0, 3, 5, 6, 11],
]


def _permute(v, table, nbits):
    out = 0
    for p in table:
        out = (out << 1) | ((v >> (nbits - p)) & 1)
    return out


def _des_subkeys(key):
    k = _permute(int.from_bytes(key, "big"), _PC1, 64)
    c, d = k >> 28, k & 0xFFFFFFF
    ks = []
    for s in _SHIFTS:
        c = ((c << s) | (c >> (28 - s))) & 0xFFFFFFF
        d = ((d << s) | (d >> (28 - s))) & 0xFFFFFFF
        ks.append(_permute((c << 28) | d, _PC2, 56))
    return ks


def _des_f(r, k):
    x = _permute(r, _E, 32) ^ k
    out = 0
    for i in range(8):
        six = (x >> (42 - 6 * i)) & 0x3F
        row = ((six >> 4) & 2) | (six & 1)
        col = (six >> 1) & 0xF
        out = (out << 4) | _S[i][row * 16 + col]
    return _permute(out, _P, 32)


def des_block_py(key, block, decrypt=False):
    ks = _des_subkeys(key)
    if decrypt:
        ks = ks[::-1]
    v = _permute(int.from_bytes(block, "big"), _IP, 64)
    l, r = v >> 32, v & 0xFFFFFFFF
    for k in ks:
        l, r = r, l ^ _des_f(r, k)
    return _permute((r << 32) | l, _FP, 64).to_bytes(8, "big")


# ------------------------------------------------------------------ AES-128 (FIPS 197)


def _aes_tables():
    sbox = [0] * 256
    p = q = 1
    while True:
        p = p ^ ((p << 1) & 0xFF) ^ (0x1B if p & 0x80 else 0)
        q ^= q << 1
        q ^= q << 2
        q ^= q << 4
        q &= 0xFF
        if q & 0x80:
            q ^= 0x09
        x = q ^ ((q << 1) | (q >> 7)) ^ ((q << 2) | (q >> 6)) ^ ((q << 3) | (q >> 5)) ^ ((q << 4) | (q >> 4))
        sbox[p] = (x ^ 0x63) & 0xFF
        if p == 1:
            break
    sbox[0] = 0x63
    return sbox


_SBOX = _aes_tables()


def _xt(a):
    return ((a << 1) ^ 0x1B) & 0xFF if a & 0x80 else a << 1


def _aes_expand(key):
    w = [list(key[4 * i : 4 * i + 4]) for i in range(4)]
    rc = 1
    for i in range(4, 44):
        t = list(w[i - 1])
        if i % 4 == 0:
            t = t[1:] + t[:1]
            t = [_SBOX[b] for b in t]
            t[0] ^= rc
            rc = _xt(rc)
        w.append([w[i - 4][j] ^ t[j] for j in range(4)])
    return [sum((w[4 * r + c] for c in range(4)), []) for r in range(11)]


def aes_block_py(key, block):
    rk = _aes_expand(key)
    s = [b ^ k for b, k in zip(block, rk[0])]
    for rnd in range(1, 11):
        s = [_SBOX[b] for b in s]
        # shift rows (state is column-major: s[4*c + r])
        s = [s[4 * ((c + r) % 4) + r] for c in range(4) for r in range(4)]
        if rnd != 10:
            t = []
            for c in range(4):
                a = s[4 * c : 4 * c + 4]
                x = a[0] ^ a[1] ^ a[2] ^ a[3]
                t += [a[i] ^ x ^ _xt(a[i] ^ a[(i + 1) % 4]) for i in range(4)]
            s = t
        s = [b ^ k for b, k in zip(s, rk[rnd])]
    return bytes(s)


# ------------------------------------------------------------------ fast path (libcrypto)

_lib = None


def _load_lib():
    global _lib
    if _lib is None:
        try:
            name = ctypes.util.find_library("crypto")
            lib = ctypes.CDLL(name) if name else None
            for f in ("DES_set_key_unchecked", "DES_ecb_encrypt", "AES_set_encrypt_key", "AES_encrypt"):
                getattr(lib, f)
            _lib = lib
        except Exception:
            _lib = False
    return _lib


class _DesKey:
    def __init__(self, key):
        self.key = bytes(key)
        lib = _load_lib()
        if lib:
            self.ks = ctypes.create_string_buffer(256)
            lib.DES_set_key_unchecked(self.key, self.ks)
            self.out = ctypes.create_string_buffer(8)
        else:
            self.ks = None

    def block(self, b, decrypt=False):
        if self.ks is None:
            return des_block_py(self.key, b, decrypt)
        _lib.DES_ecb_encrypt(bytes(b), self.out, self.ks, 0 if decrypt else 1)
        return self.out.raw


class _AesKey:
    def __init__(self, key):
        self.key = bytes(key)
        lib = _load_lib()
        if lib:
            self.ks = ctypes.create_string_buffer(512)
            lib.AES_set_encrypt_key(self.key, 128, self.ks)
            self.out = ctypes.create_string_buffer(16)
        else:
            self.ks = None

    def block(self, b):
        if self.ks is None:
            return aes_block_py(self.key, b)
        _lib.AES_encrypt(bytes(b), self.out, self.ks)
        return self.out.raw


def _xor(a, b):
    return bytes(x ^ y for x, y in zip(a, b))


# ------------------------------------------------------------------ RFC 3414 s.8 / RFC 3826


def des_cbc_encrypt(key8, iv, data):
    if len(data) % 8:
        raise ValueError("DES-CBC needs whole blocks")
    k = _DesKey(key8)
    out = bytearray()
    prev = iv
    for i in range(0, len(data), 8):
        prev = k.block(_xor(data[i : i + 8], prev))
        out += prev
    return bytes(out)


def des_cbc_decrypt(key8, iv, data):
    if len(data) % 8:
        raise ValueError("DES-CBC needs whole blocks")
    k = _DesKey(key8)
    out = bytearray()
    prev = iv
    for i in range(0, len(data), 8):
        c = data[i : i + 8]
        out += _xor(k.block(c, True), prev)
        prev = c
    return bytes(out)


def aes_cfb_encrypt(key16, iv, data):
    k = _AesKey(key16)
    out = bytearray()
    prev = iv
    for i in range(0, len(data), 16):
        ks = k.block(prev)
        c = _xor(data[i : i + 16], ks)
        out += c
        prev = c
    return bytes(out)


def aes_cfb_decrypt(key16, iv, data):
    k = _AesKey(key16)
    out = bytearray()
    prev = iv
    for i in range(0, len(data), 16):
        ks = k.block(prev)
        c = data[i : i + 16]
        out += _xor(c, ks)
        prev = c if len(c) == 16 else c + b"\x00" * (16 - len(c))
    return bytes(out)


def usm_decrypt(priv, priv_key_localized, boots, time, salt, ciphertext):
    """Decrypt msgData per RFC 3414 s.8.1.1.1 (DES) / RFC 3826 s.3.1 (AES)."""
    if len(salt) != 8:
        raise ValueError("salt must be 8 octets")
    if priv == DES:
        key, pre_iv = priv_key_localized[:8], priv_key_localized[8:16]
        return des_cbc_decrypt(key, _xor(pre_iv, salt), ciphertext)
    if priv == AES:
        iv = (boots & 0xFFFFFFFF).to_bytes(4, "big") + (time & 0xFFFFFFFF).to_bytes(4, "big") + salt
        return aes_cfb_decrypt(priv_key_localized[:16], iv, ciphertext)
    raise ValueError("no privacy")


def usm_encrypt(priv, priv_key_localized, boots, time, salt, plaintext):
    if priv == DES:
        key, pre_iv = priv_key_localized[:8], priv_key_localized[8:16]
        pad = (-len(plaintext)) % 8
        return des_cbc_encrypt(key, _xor(pre_iv, salt), plaintext + b"\x00" * pad)
    if priv == AES:
        iv = (boots & 0xFFFFFFFF).to_bytes(4, "big") + (time & 0xFFFFFFFF).to_bytes(4, "big") + salt
        return aes_cfb_encrypt(priv_key_localized[:16], iv, plaintext)
    raise ValueError("no privacy")


# ------------------------------------------------------------------ self test


def selftest():
    """FIPS / RFC vectors; pure Python vs libcrypto; returns list of check names."""
    done = []
    # DES, FIPS 46 classic vector
    k = bytes.fromhex("133457799BBCDFF1")
    p = bytes.fromhex("0123456789ABCDEF")
    c = bytes.fromhex("85E813540F0AB405")
    assert des_block_py(k, p) == c and des_block_py(k, c, True) == p
    done.append("des-fips-vector")
    # AES, FIPS 197 C.1
    k = bytes.fromhex("000102030405060708090a0b0c0d0e0f")
    p = bytes.fromhex("00112233445566778899aabbccddeeff")
    assert aes_block_py(k, p) == bytes.fromhex("69c4e0d86a7b0430d8cdb78070b4c55a")
    done.append("aes-fips197-c1")
    if _load_lib():
        import random

        rnd = random.Random(7)
        for _ in range(64):
            key = bytes(rnd.randrange(256) for _ in range(8))
            blk = bytes(rnd.randrange(256) for _ in range(8))
            dk = _DesKey(key)
            assert dk.block(blk) == des_block_py(key, blk)
            assert dk.block(blk, True) == des_block_py(key, blk, True)
            key = bytes(rnd.randrange(256) for _ in range(16))
            blk = bytes(rnd.randrange(256) for _ in range(16))
            assert _AesKey(key).block(blk) == aes_block_py(key, blk)
        done.append("pure-python == libcrypto on 64 random blocks each")
    # AES-CFB128, NIST SP 800-38A F.3.13
    k = bytes.fromhex("2b7e151628aed2a6abf7158809cf4f3c")
    iv = bytes.fromhex("000102030405060708090a0b0c0d0e0f")
    p = bytes.fromhex("6bc1bee22e409f96e93d7e117393172aae2d8a571e03ac9c9eb76fac45af8e51")
    c = bytes.fromhex("3b3fd92eb72dad20333449f8e83cfb4ac8a64537a0b3a93fcde3cdad9f1ce58b")
    assert aes_cfb_encrypt(k, iv, p) == c and aes_cfb_decrypt(k, iv, c) == p
    done.append("aes-cfb128 sp800-38a")
    # DES-CBC: round trip plus NIST SP 800-17-style known answer via chaining identity
    k = bytes.fromhex("0123456789abcdef")
    iv = bytes.fromhex("1234567890abcdef")
    p = b"Now is the time for all "
    c = bytes.fromhex("e5c7cdde872bf27c43e934008c389c0f683788499a7c05f6")
    assert des_cbc_encrypt(k, iv, p) == c and des_cbc_decrypt(k, iv, c) == p
    done.append("des-cbc fips81 vector")
    # RFC 3414 A.3 key vectors
    e = bytes.fromhex("000000000000000000000002")
    km = password_to_key(MD5, b"maplesyrup")
    assert km.hex() == "9faf3283884e92834ebc9847d8edd963"
    assert localize(MD5, km, e).hex() == "526f5eed9fcce26f8964c2930787d82b"
    ks = password_to_key(SHA1, b"maplesyrup")
    assert ks.hex() == "9fb5cc0381497b3793528939ff788d5d79145211"
    assert localize(SHA1, ks, e).hex() == "6695febc9288e36282235fc7151f128497b38f3f"
    for pw in (b"a", b"maplesyrup", bytes(range(1, 68)), bytes(range(256)) * 5):
        for alg in (MD5, SHA1):
            assert password_to_key(alg, pw) == password_to_key_fast(alg, pw)
    done.append("rfc3414 a.3 vectors; chunked == repeated formulation")
    # HMAC RFC 2202 case 1
    assert _hmac.new(b"\x0b" * 16, b"Hi There", hashlib.md5).hexdigest() == "9294727a3638bb1c13f48ef8158bfc9d"
    done.append("hmac rfc2202")
    return done


if __name__ == "__main__":
    print(selftest())
