"""Oracle for datagrams emitted by the client: what must be true of a request on the wire.

check_request() strictly decodes a captured datagram with the reference codec and compares
it with the API call that produced it and with the reference model of the session.
Problems are tagged with the clause they violate so each check reports only its own property:
  wire   - C03: well-formed minimal message, version, credentials, PDU type, ids, OIDs
  usm    - C03/C13: engine id / boots / time / flags carried by the request
  mac    - C09: auth flag and HMAC-96
  priv   - C11/C12: msgData decrypts (under the independently derived key) to exactly the scoped PDU
  pad    - C11: less than one block of padding follows it
  salt   - C14: priv flag, 8-octet salt, nothing confidential in clear
"""

from . import drivers, refber as rb, refcrypto

MAX31 = (1 << 31) - 1


class Call:
    """An API call as the caller made it."""

    def __init__(self, op, oids=(), max_rep=None):
        self.op = op  # get | get_many | getnext | getbulk | refresh
        self.oids = [tuple(o) for o in oids]
        self.max_rep = max_rep

    def expected_pdu_tag(self):
        return {"get": rb.PDU_GET, "get_many": rb.PDU_GET, "refresh": rb.PDU_GET, "getnext": rb.PDU_GETNEXT, "getbulk": rb.PDU_GETBULK}[
            self.op
        ]

    def describe(self):
        return {"op": self.op, "oids": [rb.oid_str(o) for o in self.oids], "max_rep": self.max_rep}


class SessionModel:
    """Reference view of a v3 session's authoritative-engine state."""

    def __init__(self, cfg):
        self.cfg = cfg
        self.engine_id = b"" if (cfg.version == "v3" and cfg.discover) else cfg.engine_id
        self.boots = 0
        self.time = 0
        self.keys_for = None  # engine id the keys are localized to (None = as configured)

    def accept(self, engine_id, boots, time):
        """A message from the agent was accepted by the session."""
        if not self.engine_id:
            self.engine_id = bytes(engine_id)
        self.boots = boots
        self.time = time


def check_request(cfg, call, data, model=None, clauses=("wire", "usm", "mac", "priv", "pad", "salt")):
    """Returns (Request or None, problems) where problems is a list of (clause, text)."""
    problems = []

    def bad(clause, text):
        if clause in clauses:
            problems.append((clause, text))

    try:
        r = rb.parse_message(data, strict=True)
    except rb.StrictError as e:
        bad("wire", "datagram is not a strictly well-formed SNMP message: %s" % e)
        return None, problems
    want_version = {"v1": 0, "v2c": 1, "v3": 3}[cfg.version]
    if r.version != want_version:
        bad("wire", "version %d on the wire, session is %s" % (r.version, cfg.version))
        return r, problems
    if r.version != 3:
        if r.community != cfg.community.encode():
            bad("wire", "community %r, session has %r" % (r.community, cfg.community))
        _check_pdu(r, call, bad)
        _check_reencode_community(r, data, bad)
        return r, problems
    # ---- v3 header
    if not 0 <= r.msg_id <= MAX31:
        bad("wire", "msgID %d outside 0..2^31-1" % r.msg_id)
    if not 484 <= r.max_size <= MAX31:
        bad("wire", "msgMaxSize %d outside 484..2^31-1" % r.max_size)
    if r.model != 3:
        bad("wire", "security model %d" % r.model)
    if r.flags & ~7:
        bad("wire", "reserved msgFlags bits set: %02x" % r.flags)
    if r.user != cfg.user.encode() and not (model is not None and getattr(model, "user", None) == r.user):
        bad("wire", "user name %r, session has %r" % (r.user, cfg.user))
    if model is not None:
        if r.engine_id != model.engine_id:
            bad("usm", "authoritative engine id %s, expected %s" % (r.engine_id.hex(), model.engine_id.hex()))
        if (r.boots, r.time) != (model.boots, model.time):
            bad("usm", "engine boots/time %d/%d, expected %d/%d from the last accepted message" % (r.boots, r.time, model.boots, model.time))
    has_auth = bool(cfg.auth) and not getattr(model, "no_keys_yet", False)
    has_priv = bool(cfg.priv) and not getattr(model, "no_keys_yet", False)
    # ---- auth (C09)
    if bool(r.flags & 1) != has_auth:
        bad("mac", "auth flag %d but session %s an auth key" % (r.flags & 1, "has" if has_auth else "has not"))
    if has_auth:
        if len(r.auth_params) != 12:
            bad("mac", "msgAuthenticationParameters is %d octets, must be 12" % len(r.auth_params))
        else:
            kul = cfg.auth_kul(r.engine_id)
            mac = refcrypto.mac_of_message(cfg.auth, kul, data, r.auth_off)
            if mac != r.auth_params:
                bad("mac", "HMAC-96 mismatch: wire %s, recomputed %s (key localized to engine id in the message)" % (r.auth_params.hex(), mac.hex()))
    else:
        if r.auth_params:
            bad("mac", "msgAuthenticationParameters not empty without an auth key")
    # ---- privacy (C11 / C14)
    if bool(r.flags & 2) != has_priv:
        bad("salt", "priv flag %d but session %s a priv key" % ((r.flags >> 1) & 1, "has" if has_priv else "has not"))
    if has_priv:
        if r.encrypted is None:
            bad("salt", "msgData is not an OCTET STRING although privacy is configured (scoped PDU in clear)")
            _check_scoped(r, cfg, call, model, bad, data)
        elif len(r.priv_params) != 8:
            bad("salt", "msgPrivacyParameters is %d octets, must be 8" % len(r.priv_params))
        else:
            block = 8 if cfg.priv == refcrypto.DES else 16
            kul = cfg.priv_kul(r.engine_id)
            try:
                plain = refcrypto.usm_decrypt(cfg.priv, kul, r.boots, r.time, r.priv_params, r.encrypted)
            except ValueError as e:
                bad("priv", "msgData cannot be decrypted: %s" % e)
                plain = None
            if plain is not None:
                try:
                    n = rb.parse_scoped_into(r, plain, True, allow_padding=True)
                except rb.StrictError as e:
                    bad("priv", "decrypted msgData is not a scoped PDU: %s (first octets %s)" % (e, plain[:16].hex()))
                    n = None
                if n is not None:
                    r.scoped_raw = plain[:n]
                    r.padding = plain[n:]
                    if len(r.padding) >= block:
                        bad("pad", "%d octets follow the scoped PDU inside the ciphertext (block is %d)" % (len(r.padding), block))
                    _check_scoped(r, cfg, call, model, bad, data)
                    # confidentiality (C14): nothing of the scoped PDU outside the ciphertext
                    clear = _outside_ciphertext(data, r)
                    for o in r.oid_contents or ():
                        if len(o) >= 6 and o in clear:
                            bad("salt", "OID octets %s appear outside the ciphertext" % o.hex())
                    if len(r.scoped_raw) >= 8 and r.scoped_raw in clear:
                        bad("salt", "scoped PDU appears in clear")
    else:
        if r.priv_params:
            bad("salt", "msgPrivacyParameters not empty without a priv key")
        if r.encrypted is not None:
            bad("salt", "msgData is an OCTET STRING although no privacy is configured")
        else:
            _check_scoped(r, cfg, call, model, bad, data)
    return r, problems


def _outside_ciphertext(data, r):
    i = data.find(r.encrypted) if r.encrypted else -1
    if i < 0:
        return data
    return data[:i] + b"|" + data[i + len(r.encrypted) :]


def _check_scoped(r, cfg, call, model, bad, data):
    if r.pdu_tag is None:
        return
    eid = model.engine_id if model is not None else r.engine_id
    if r.ctx_engine_id != eid:
        bad("wire", "contextEngineID %s differs from the authoritative engine id %s" % (r.ctx_engine_id.hex(), eid.hex()))
    if r.ctx_name != b"":
        bad("wire", "contextName %r" % r.ctx_name)
    _check_pdu(r, call, bad)
    # the scoped PDU must be exactly the reference encoding of what it denotes
    vbs = [(o, rb.enc_null()) for o in r.oids]
    ref = rb.build_scoped(r.ctx_engine_id, r.ctx_name, rb.build_pdu(r.pdu_tag, r.request_id, r.a, r.b, vbs))
    if r.scoped_raw is not None and ref != r.scoped_raw:
        bad("priv" if r.encrypted is not None else "wire", "scoped PDU differs from its reference encoding")


def _check_pdu(r, call, bad):
    if call is None:
        return
    want = call.expected_pdu_tag()
    if r.pdu_tag != want:
        bad("wire", "PDU tag %02x, API call %s requires %02x" % (r.pdu_tag, call.op, want))
    if not 0 <= r.request_id <= MAX31:
        bad("wire", "request-id %d outside 0..2^31-1" % r.request_id)
    if call.op == "getbulk":
        if r.a != 0:
            bad("wire", "non-repeaters %d, must be 0" % r.a)
        if r.b != call.max_rep:
            bad("wire", "max-repetitions %d, requested %d" % (r.b, call.max_rep))
    else:
        if r.a != 0 or r.b != 0:
            bad("wire", "error-status/error-index %d/%d in a request" % (r.a, r.b))
    if list(r.oids) != list(call.oids):
        bad("wire", "OIDs on the wire %s, requested %s" % ([rb.oid_str(o) for o in r.oids], [rb.oid_str(o) for o in call.oids]))
    for tag, content in r.values:
        if tag != 0x05 or content:
            bad("wire", "request varbind bound to %02x/%s instead of NULL" % (tag, content.hex()))


def _check_reencode_community(r, data, bad):
    vbs = [(o, rb.enc_null()) for o in r.oids]
    ref = rb.build_community_msg(r.version, r.community, rb.build_pdu(r.pdu_tag, r.request_id, r.a, r.b, vbs))
    if ref != data:
        bad("wire", "datagram differs from the reference encoding of what it denotes")
