"""Run the Rust explorer (RSX) and fold its report into a Recorder."""

import json
import os
import subprocess
import tempfile

from . import build


def run(check, tier, rec, timeout=3600):
    try:
        exe = build.build_rsx()
    except build.MachineryError as e:
        # the harness links the crate's internal API: a tree that renames or re-types one of those items cannot be
        # explored by RSX. That is an engine error (exit 2 unless the other engines of this check record a violation),
        # not a verdict - but the Python engine of the same check still runs.
        rec.machinery_errors.append(str(e))
        return None
    out = os.path.join(build.CACHE, "rsx-%s-%d.json" % (check, os.getpid()))
    env = dict(os.environ)
    env["RUST_BACKTRACE"] = "0"
    try:
        p = subprocess.run([exe, check, tier, out], stdout=subprocess.PIPE, stderr=subprocess.PIPE, text=True, timeout=timeout, env=env)
    except subprocess.TimeoutExpired:
        rec.violation("rsx/%s/fails-to-return" % check, "the Rust explorer did not finish within %d s" % timeout, {"engine": "rsx", "check": check})
        return None
    if p.returncode == 3:
        label = p.stdout.strip()
        try:
            label = json.loads(label)["hang"]
        except (ValueError, KeyError):
            pass
        rec.violation("rsx/%s/fails-to-return" % check, "a decoder call made no progress for 30 s while exploring: %s" % label, {"engine": "rsx", "check": check, "shard": label})
        return None
    if p.returncode != 0:
        if p.returncode < 0 or "SIG" in p.stderr:
            rec.violation(
                "rsx/%s/process-abort" % check,
                "the Rust explorer died with status %d (abort / memory fault inside the subject): %s" % (p.returncode, p.stderr[-300:]),
                {"engine": "rsx", "check": check},
            )
            return None
        rec.machinery_errors.append("rsx %s exited %d: %s" % (check, p.returncode, p.stderr[-500:]))
        return None
    with open(out) as f:
        rep = json.load(f)
    os.remove(out)
    for k, v in rep["counters"].items():
        rec.counters["rsx_" + k] += v
    for k, v in rep["outcomes"].items():
        rec.outcomes["rsx:" + k] += v
    for s in rep["samples"]:
        rec.sample({"rsx": s})
    for c in rep["caps"]:
        rec.cap("rsx: " + c)
    for v in rep["violations"]:
        case = {"engine": "rsx", "check": check, "case": v["case"]}
        rec.violation("rsx/" + v["sig"], v["desc"] + (" (x%d)" % v["count"] if v["count"] > 1 else ""), case)
        rec.violation_counts["rsx/" + v["sig"]] += v["count"] - 1
    rec.extra.setdefault("rsx_notes", []).extend(rep.get("notes", []))
    return rep


def replay(case):
    exe = build.build_rsx()
    p = subprocess.run([exe, "replay", case["check"], "x", json.dumps(case["case"])], stdout=subprocess.PIPE, stderr=subprocess.PIPE, text=True, timeout=120)
    return p.stdout.strip() or p.stderr.strip()
