#!/bin/bash
# usage: try_mutant.sh <patch.diff> <Cxx> [tier]   -- applies the patch to /repo, runs the check, reverts
set -u
P=$1; C=$2; T=${3:-quick}
cd /repo || exit 2
if [ -n "$(git status --porcelain --untracked-files=no)" ]; then echo "/repo dirty"; exit 2; fi
git apply "$P" || { echo "patch does not apply"; exit 2; }
/verif/vcheck "$C" --tier "$T" > /tmp/try_mutant.$$ 2>&1
rc=$?
git checkout -- . 
grep -E "VIOLATION|KNOWN-FINDING|MACHINERY|signature:|^C[0-9]+ " /tmp/try_mutant.$$ | head -${LINES_MAX:-12}
echo "exit=$rc"
rm -f /tmp/try_mutant.$$
