#!/usr/bin/python3
"""Apply each seeded change to /repo, run the listed checks (quick), undo, record what was detected."""
import json, os, subprocess, sys

MAP = {
 "C01": ["C01", "C18", "C11", "C17"], "C02": ["C02", "C08", "C06", "C05", "C01", "C12", "C11"], "C03": ["C03", "C11", "C13", "C12", "C09", "C08"], "C04": ["C04", "C13", "C18", "C01"],
 "C05": ["C05", "C06", "C03", "C01", "C02", "C11"], "C06": ["C06", "C04", "C05", "C08", "C02"],
 "C07": ["C07", "C02", "C04", "C18", "C12", "C11"], "C08": ["C08", "C03", "C05", "C02"], "C09": ["C09", "C13", "C12"], "C10": ["C10", "C13", "C04", "C01"], "C11": ["C11", "C13", "C12", "C15"],
 "C12": ["C12", "C11", "C13", "C10"], "C13": ["C13", "C11", "C09", "C07", "C18"], "C14": ["C14", "C13", "C12", "C17", "C10"], "C15": ["C15", "C03", "C17", "C08"], "C16": ["C16", "C02"],
 "C17": ["C17", "C03", "C04"], "C18": ["C18", "C01", "C13", "C19"], "C19": ["C19"],
}
def main():
    out_dir = os.environ.get("MATRIXDIR", "/root/scratch/matrix")
    MUTROOT = os.environ.get("MUTROOT", "/tmp/mut")
    os.makedirs(out_dir, exist_ok=True)
    only = sys.argv[1:]
    for c in sorted(MAP):
        for n in (1, 2):
            d = "%s/%s/out/%d" % (MUTROOT, c, n)
            patch = os.path.join(d, "patch.ported.diff") if os.path.exists(os.path.join(d, "patch.ported.diff")) else os.path.join(d, "patch.diff")
            if not os.path.exists(patch) or (only and "%s-%d" % (c, n) not in only):
                continue
            res = {"mutant": "%s-%d" % (c, n), "checks": {}}
            if subprocess.run(["git", "-C", "/repo", "status", "--porcelain", "--untracked-files=no"], capture_output=True, text=True).stdout.strip():
                print("repo dirty"); sys.exit(2)
            if subprocess.run(["git", "-C", "/repo", "apply", patch]).returncode != 0:
                res["error"] = "patch does not apply"
            else:
                try:
                    for chk in MAP[c]:
                        p = subprocess.run(["/verif/vcheck", chk, "--tier", "quick"], capture_output=True, text=True)
                        sigs = [l.strip()[len("signature: "):] for l in p.stdout.splitlines() if l.strip().startswith("signature:")]
                        res["checks"][chk] = {"exit": p.returncode, "violations": len(sigs), "first_signatures": sigs[:3]}
                finally:
                    subprocess.run(["git", "-C", "/repo", "checkout", "--", "."])
            json.dump(res, open(os.path.join(out_dir, res["mutant"] + ".json"), "w"), indent=1)
            print(res["mutant"], {k: (v["exit"], v["violations"]) for k, v in res["checks"].items()}, flush=True)


if __name__ == "__main__":
    main()
