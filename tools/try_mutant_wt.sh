#!/bin/bash
# usage: try_mutant_wt.sh <worktree> <patch.diff> <Cxx> [tier] -- like try_mutant.sh but on a scratch worktree (VERIF_REPO), /repo untouched
W=$1; P=$2; C=$3; T=${4:-quick}
cd $W || exit 2
git checkout -q -- . ; git checkout -q --detach $(git -C /repo rev-parse HEAD) 2>/dev/null
cp /repo/Cargo.lock $W/ 2>/dev/null
git apply "$P" || { echo "patch does not apply"; exit 2; }
VERIF_REPO=$W /verif/vcheck "$C" --tier "$T" > /tmp/try_wt.$$ 2>&1; rc=$?
git checkout -q -- .
grep -E "VIOLATION|KNOWN-FINDING|MACHINERY|signature:|^C[0-9]+ " /tmp/try_wt.$$ | head -${LINES_MAX:-8}
echo "exit=$rc"; rm -f /tmp/try_wt.$$
