#!/bin/bash
# usage: confirm_mutant.sh <Cxx> <n>  -- confirm a seeded change in its scratch worktree /tmp/mut/<Cxx> at /repo's HEAD
C=$1; N=$2; W=/tmp/mut/$C; O=$W/out/$N
LOG=/root/scratch/confirm/$C-$N.log
exec > $LOG 2>&1
cd $W || exit 2
HEAD=$(git -C /repo rev-parse HEAD)
git checkout -q -- . ; git checkout -q --detach $HEAD || { echo "RESULT checkout-failed"; exit 2; }
cp /repo/Cargo.lock $W/ 2>/dev/null
if ! git apply --check $O/patch.diff; then echo "RESULT patch-does-not-apply"; exit 3; fi
git apply $O/patch.diff
export CARGO_NET_OFFLINE=true PYO3_PYTHON=/usr/bin/python3
T=$(cargo test --offline 2>&1 | grep "test result" | head -1)
echo "TESTS_WITH: $T"
RUN=$(grep -v '^\s*$' $O/RUN.txt | grep -v '^#' | head -1)
echo "RUN: $RUN"
timeout 900 bash -c "$RUN" > $O/.with.out 2>&1; RC_WITH=$?
tail -5 $O/.with.out
git checkout -q -- .
timeout 900 bash -c "$RUN" > $O/.without.out 2>&1; RC_WITHOUT=$?
tail -3 $O/.without.out
rm -rf $W/target $W/src/gufo/snmp/_fast.so $W/out/target $O/target
echo "RESULT tests=[$T] demo_with_change_rc=$RC_WITH demo_without_change_rc=$RC_WITHOUT"
