#!/bin/bash
# usage: confirm_mutant.sh <Cxx> <n>  -- confirm a seeded change in its scratch worktree /tmp/mut/<Cxx> at /repo's HEAD:
#   repo tests pass with the change; the demonstration fails with it and passes without it.
C=$1; N=$2; ROOT=${MUTROOT:-/tmp/mut}; W=$ROOT/$C; O=$W/out/$N
LOG=${CONFDIR:-/root/scratch/confirm}/$C-$N.log
exec > $LOG 2>&1
cd $W || exit 2
HEAD=$(git -C /repo rev-parse HEAD)
git checkout -q -- . ; git checkout -q --detach $HEAD || { echo "RESULT checkout-failed"; exit 2; }
cp /repo/Cargo.lock $W/ 2>/dev/null
P=$O/patch.diff; [ -f $O/patch.ported.diff ] && P=$O/patch.ported.diff
if ! git apply --check $P; then echo "RESULT patch-does-not-apply"; exit 3; fi
export CARGO_NET_OFFLINE=true PYO3_PYTHON=/usr/bin/python3 CARGO_PROFILE_RELEASE_LTO=off CARGO_PROFILE_RELEASE_CODEGEN_UNITS=16
build_ext() { (cd $W && cargo build --release --offline --features verif 2>&1 | tail -1 && cp target/release/libgufo_snmp.so src/gufo/snmp/_fast.so); }
demo() {
  if [ -f $O/demo.py ]; then (cd $O && VERIF_STAGE=$W/src PYTHONPATH=$W/src timeout 600 /usr/bin/python3 demo.py);
  else RUN=$(grep -v '^\s*$' $O/RUN.txt | grep -v '^#' | head -1); timeout 900 bash -c "$RUN"; fi
}
git apply $P
T=$(cargo test --offline 2>&1 | grep "test result" | head -1)
echo "TESTS_WITH: $T"
build_ext; demo > $O/.with.out 2>&1; RC_WITH=$?
tail -4 $O/.with.out
git checkout -q -- .
build_ext; demo > $O/.without.out 2>&1; RC_WITHOUT=$?
tail -4 $O/.without.out
rm -rf $W/target $W/src/gufo/snmp/_fast.so $W/out/target $O/target
echo "RESULT tests=[$T] demo_with_change_rc=$RC_WITH demo_without_change_rc=$RC_WITHOUT"
