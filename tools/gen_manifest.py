#!/usr/bin/python3
"""Regenerates /verif/MANIFEST.json from the table below (kept next to the checks it describes)."""

import json
import os
import subprocess

VERIF = os.path.dirname(os.path.dirname(os.path.abspath(__file__)))

CHECKS = {
    "C01": dict(
        engine="RSX+PYX",
        category="model_checking",
        technique="bounded-exhaustive enumeration of byte strings / k-deviations of skeleton messages at every decoder entry point (Rust harness on the real crate) and end-to-end datagrams per configuration x pending operation",
        text="Every byte string up to a length bound over full and reduced alphabets, every <=2-deviation and header tampering of ~90 well-formed skeleton messages, at all 29 decoder entry points (incl. OID rendering of decoded results), a grid of short relative-OID names after short absolute names, the privacy decrypt path, and end to end through the real sockets for each configuration and pending operation (deviations applied before sealing so that authentication passes) plus a slice through both public clients; verdict = no unwind, no non-Exception BaseException, no hang, no worker death. Plus one-varbind replies of every datagram size up to the receive limit (sealed / wrong MAC / damaged) per configuration, and binary REALs with 8..17-octet mantissas. Also delivered as they are: every value type with 0..10 content octets, prefixes of Net-SNMP wrapped forms as Opaque/OCTET STRING contents, Reports naming every prefix of the usmStats OIDs.",
        note="bounds stated in evidence; memory safety of the two unsafe-bearing paths is covered by C17's shadow model (+Miri slice); longer strings are not claimed",
        ref="DESIGN.md s.3 C01",
    ),
    "C02": dict(
        engine="PYX+RSX",
        category="model_checking",
        technique="exhaustive enumeration of a boundary-complete value model x position x length form, through the real clients against an independent BER encoder",
        text="All 1-2 octet contents and boundary neighbourhoods of every integer type, string lengths across the length-form boundaries, OID arcs at every base-128 boundary, BOOLEAN/NULL/IpAddress corners, REAL special/decimal/binary forms, at first/middle/last position and in valid long-form lengths; Python object and OID key must equal what the encoding denotes. Plus RELATIVE-OID name chains, string contents that look like other encodings, and 9..18-octet REAL mantissas (lenient class).",
        note="reference encoder vlib/refber.py; float comparison exact below 2^53 mantissa, else 1 ulp",
        ref="DESIGN.md s.3 C02",
    ),
    "C03": dict(
        engine="PYX",
        category="model_checking",
        technique="exhaustive call/reply history enumeration to a depth bound on real sessions sharing the buffer pool, strict reference decoding of every emitted datagram; loom interleavings of the real pool",
        text="All histories to depth 3 (quick) / 4 (thorough) over requests of every type, oversize failures, valid/garbage/Report replies and time-outs on pairs of sessions that share the pool; forced boundary id draws; PDU-type policy of both public clients. Every datagram must strictly decode to exactly what the API call asked for. Public-client scripts include per-call max_repetitions followed by default calls and get_many with repeated OIDs.",
        note="reference codec is the arbiter of minimality; ids read from the wire; RNG seam optional",
        ref="DESIGN.md s.3 C03",
    ),
    "C04": dict(
        engine="PYX",
        category="model_checking",
        technique="explicit-state breadth-first search of the product {real client socket, lossy/duplicating/reordering/rewriting network}; every client transition executed on the implementation and compared with a reference model over the ids seen on the wire",
        text="BFS with canonical state de-duplication over K requests and D deviations (duplicate / rewrite one field incl. ids +-2^32 / |2^31, Reports with foreign or non-echoed ids / truncate; loss and reordering free) for v1, v2c, v3 (noAuth and authPriv). Each receive outcome (value of request k, decode error, auth error, still waiting) must equal the model's. The alphabet also holds the empty datagram, community + 256 octets, a looped-back request PDU with a foreign request-id, outer lengths written in four octets, and long replies cut inside their own header. The same faults are enumerated as agent scripts through both public clients (K calls - get, or steps of one getnext / getbulk iterator - with at most one (thorough: two) extra / rewritten / late datagram and one dropped reply), and pairs of consecutive requests whose random draws are chosen through the RNG seam.",
        note="state futures assumed to depend only on the fingerprint; id collisions detected from concrete ids and skipped",
        ref="DESIGN.md s.3 C04",
    ),
    "C05": dict(
        engine="PYX",
        category="model_checking",
        technique="exhaustive enumeration of all MIBs over a small OID universe x bases x methods x caps x versions through both public iterators against an RFC 3416 reference agent",
        text="Every subset MIB of a 10 (quick) / 15 (thorough) OID universe with multi-octet arcs and out-of-subtree neighbours x 10 bases x {getnext, getbulk(max_rep x cap), fetch} x {v1,v2c,v3} x {sync, async}: yields exactly the entries below the base, once, in order, then stops; request sequence checked. Plus slices: subtree roots ending at every base-128 width boundary, names of 127/128 sub-identifiers and >=128 content octets, equal-length siblings of different arc widths, every max_repetitions 1..300 and the INTEGER width boundaries. Also 400 short rows fetched 254..280 per reply.",
        note="agent = vlib/refagent.py written from RFC 3416; larger universes not claimed",
        ref="DESIGN.md s.3 C05",
    ),
    "C06": dict(
        engine="PYX",
        category="model_checking",
        technique="exhaustive enumeration of adversarial agent strategies with a bounded number of varbind-level deviations; transcript checked by an NFA simulation of an executable walk specification",
        text="All agent strategies with <=D deviations (substitute/delete/insert over 7 OIDs x 5 values) within the first 5 requests, for getnext and getbulk through sync and async iterators; containment, strict monotonicity, follow-up request, termination. Plus two iterators advanced in every order of <=5 next() calls and abandoned, and the reply to the k-th request lost once with the same iterator asked again.",
        note="specification is permissive exactly where the property is silent (listed in evidence assumptions)",
        ref="DESIGN.md s.3 C06",
    ),
    "C07": dict(
        engine="PYX",
        category="model_checking",
        technique="exhaustive enumeration of replies (0..3 varbinds x 17 value kinds x OID choices) x operations x configurations x drivers against the mapping table of the property",
        text="Every reply with up to 3 varbinds over all 17 value kinds and OID choices, for get and get_many, on raw sockets for v1/v2c/v3 (plain, authPriv) and through both public clients, plus Reports (echoing / not echoing the request-id) and a silent agent: returned value / exception class must follow the documented table. Plus replies naming long / wide OIDs and authentic Reports from a new boot epoch after a large engine time was learnt.",
        note="replies built by the reference encoder and USM sealing",
        ref="DESIGN.md s.3 C07",
    ),
    "C08": dict(
        engine="RSX+PYX",
        category="model_checking",
        technique="exhaustive enumeration of all strings up to a length over an 11-symbol alphabet and of OIDs over boundary arcs; reference parser/encoder as oracle; wire binding through the real sockets",
        text="All strings of length <=6/7 over {0,1,2,3,4,9,'.','-','+',' ','a'}, all 2..4-arc OIDs over 24 boundary arcs, lengths to 130 arcs: accepted strings are sent as exactly the denoted OID and print back identically, everything else is refused before anything is sent. Plus the GetBulk entry, long OIDs crossing 127/128 and 255/256 content octets, strict well-formedness of each request, and follow-up requests of walks over reply OIDs whose encodings grow and shrink.",
        note="'+'-signed / zero-padded numerals that denote a valid OID may be accepted (sent exactly) or refused",
        ref="DESIGN.md s.3 C08",
    ),
    "C09": dict(
        engine="PYX",
        category="model_checking",
        technique="exhaustive enumeration of message shapes x digests x ciphers x key types x pooled-buffer histories; MAC of every captured datagram recomputed with hashlib/hmac",
        text="Per configuration a size sweep octet by octet across every short/long-form boundary and up to the buffer limit for each boots/time width class; every depth<=2 prefix history on the shared pool x request type; keys installed by constructor and by discovery+set_keys (mixed key types). Plus identifiers with >=12 zero octets, refused key installations, and public-client scenarios (shared User object, lost first probe, iterator prepared before session entry).",
        note="HMAC / key derivation by CPython hashlib; key localized to the engine id found in the message",
        ref="DESIGN.md s.3 C09",
    ),
    "C10": dict(
        engine="PYX",
        category="fault_enumeration",
        technique="exhaustive enumeration of the forgery product (MAC class x flags x body x digest x cipher x pending operation) against the real v3 socket",
        text="Every otherwise-matching reply with MAC in {valid, zero, random, each single bit flipped, short, absent} x auth/priv flags x {GetResponse, Report} x digests x ciphers x operation, and msgFlags/msgData mismatches (priv flag set over a plaintext body), each followed by the valid reply: a response is delivered only if authenticated and (when configured) encrypted. Plus discovery routes with guessable keys (incl. a Report with an empty engine id), keys installed while a request is in flight, refused set_keys, a signed non-matching message followed by an unauthenticated one within one receive call, the reportable flag, MAC differences that cancel under XOR/sum, and one-octet changes of genuine large replies.",
        note="the pinned code verified no MAC (342 accepted-forgery signatures); repaired by fix 24bd228, so the check is now green; timeliness checks are outside the property",
        ref="DESIGN.md s.3 C10",
    ),
    "C11": dict(
        engine="PYX",
        category="model_checking",
        technique="exhaustive send/receive/time-out history enumeration per cipher on a real session; reference decryption of every msgData",
        text="All histories to depth 4/5 per {DES,AES}x{MD5,SHA1}; scoped-PDU length sweep over all residues modulo the block size x 9 (auth,priv) key-type pairs x {engine id given, discovered}; boots/time corners; two interleaved privacy sessions; agent-encrypted replies delivered intact. Plus same-octet keys of different types, encrypted replies up to 3900 octets, slow histories (>1 s of real time between messages) and DES replies of 8m+k ciphertext octets.",
        note="block primitives: pure-Python FIPS code cross-checked with OpenSSL libcrypto; chaining/IV/salt from the RFCs",
        ref="DESIGN.md s.3 C11",
    ),
    "C12": dict(
        engine="PYX",
        category="model_checking",
        technique="exhaustive enumeration of password-length classes x engine-id lengths x digests x key types, as exposed and as installed in sessions; malformed material grid",
        text="Password lengths 1..130, all 2^k and 2^k+-1 up to 2^20+, beyond 1 MiB; engine ids 0..32 octets; get_master_key/get_localized_key vs hashlib A.2; keys as installed (HMAC validity / decryptability of emitted messages) for password/master/localized incl. mixed auth/priv key types, through raw sockets, discovery+set_keys and the public User classes (padding); malformed sizes and algorithm codes refused with an Exception. Plus same-octet keys, refused installations, discovery Reports with a differing contextEngineID, public User with mixed types and off-size keys, and an empty privacy password.",
        note="reference = RFC 3414 A.2 in its 64-octet-chunk formulation (hashlib)",
        ref="DESIGN.md s.3 C12",
    ),
    "C13": dict(
        engine="PYX",
        category="model_checking",
        technique="exhaustive enumeration of agent identity sequences x security configurations x key types x discovery modes with bounded deviations, through raw sockets and both public clients",
        text="Engine-id lengths, (boots,time) sequences changing between replies (including going backwards), K7 x key types (mixed) x {engine id given, discovered}; deviations: foreign engine id, wrong user/msgID, stray datagram before the genuine Report, lost probe reply; every request must carry the learned engine id and the boots/time of the most recent accepted message with valid MAC/decryptable payload. Plus differing contextEngineID, slow histories, shared User object, explicit empty engine id argument, iterator prepared before session entry.",
        note="reference USM session model in vlib/reqoracle.py",
        ref="DESIGN.md s.3 C13",
    ),
    "C14": dict(
        engine="PYX",
        category="model_checking",
        technique="exhaustive interleaving enumeration of the leading steps of message runs + long runs with the salt counter forced next to wrap-around; salts read from the wire",
        text="Every interleaving of 4/5 leading steps over {5 request types, reply with boots change, garbage, time-out, set_keys} per cipher and salt start; long mixed runs; discovery; two sessions: salts are 8 octets, unique per key installation, advance by one; priv flag set; no scoped-PDU octets outside the ciphertext. Plus refused set_keys / refused over-sized requests in the alphabet, two or three interleaved privacy sessions with key installations in between, and the public User with an empty privacy password.",
        note="RNG seam only chooses where the counter starts",
        ref="DESIGN.md s.3 C14",
    ),
    "C15": dict(
        engine="RSX",
        category="model_checking",
        technique="exhaustive enumeration of all i64 with 1-3 content octets and boundary bands, OIDs over boundary arcs, message grids; compared with an independent minimal encoder and decoded back by the library",
        text="push_ber(x) equals the reference minimal encoding and the library's decoder returns x with nothing left, for every INTEGER of 1..3 content octets, +-2^16 bands around every +-2^(8k-1), +-2^(8k), OIDs, NULL, OCTET STRING fields and v1/v2c/v3 Get/GetNext/GetBulk message grids. Plus a message size sweep up to the capacity and a round trip of the privacy layer (encrypt, then decrypt with a second key object).",
        note="reference codec rs/src/refber.rs shares no code with the crate",
        ref="DESIGN.md s.3 C15",
    ),
    "C16": dict(
        engine="RSX",
        category="model_checking",
        technique="exhaustive metamorphic enumeration: every corpus element x every suffix over an alphabet; every over-long inner length",
        text="For every successfully decoding element x and suffix s: from_ber(x||s) = (value(x), s); a complete element refused alone stays refused whatever follows; embedded elements are independent of what follows them; inner lengths running past the enclosing element, parents declared shorter than their children, and bytes after the top-level message are rejected. Plus trailing bytes in the USM layer, dangling element headers in varbind lists, contextName contents, decrypt extent and msgData extent.",
        note="corpus built by the reference encoder",
        ref="DESIGN.md s.3 C16",
    ),
    "C17": dict(
        engine="RSX+PYX",
        category="model_checking",
        technique="exhaustive enumeration of buffer operation sequences against a Vec-backed shadow model (Rust harness, Miri slice, loom on the pool) and an octet-by-octet request size sweep through the real sockets",
        text="All operation sequences to depth 4/5 over push/push_u8/push_tag_len/push_tagged/skip+fill/reset/bookmark with boundary sizes vs a shadow model; request sizes swept octet by octet across 127/128, 255/256 and the capacity at each nesting level for every configuration: fits => complete, strictly decodable; does not fit => SnmpEncodeError, nothing sent, next request intact; padding octets inside the ciphertext independent of the session's history; loom interleavings of the pool; Miri slice in the thorough tier. Plus padding independence of history, DES partial-block replies, truncated datagrams after a complete one, and a sweep of the number of shortest varbinds.",
        note="capacity is discovered, not hard-coded",
        ref="DESIGN.md s.3 C17",
    ),
    "C18": dict(
        engine="PYX",
        category="fault_enumeration",
        technique="exhaustive enumeration of arrival schedules; async client on a virtual-time event loop (exact), sync client on the real clock with tolerance and re-confirmation",
        text="All schedules of k stray datagrams at spacings from a small set, optionally followed by the matching reply before/after the deadline, x {v1,v2c,v3}: async must deliver iff the reply arrives by T and time out at exactly T (virtual time); sync must return by T + slack. Plus floods and oversize / other-version strays across the deadline, time-outs of 1.3 s and beyond 2^32 ns, call sequences on one session, no blocking sleep in the async client, a new async session after a timed-out one, and 1 / 16 / 40 sync sessions in threads waiting at the same time (each call keeps its own time-out).",
        note="sync half depends on the real clock (tolerance 0.5T, violations re-confirmed); includes multi-call sequences on one session and v3 session entry; the per-datagram re-armed time-out of the pinned code was repaired (8939f69, c1a09e7)",
        ref="DESIGN.md s.3 C18",
    ),
    "C19": dict(
        engine="PYX",
        category="model_checking",
        technique="the real RPSPolicer.get_timeout as transition function: all K-call paths for small intervals, explicit-state BFS over phase states for larger ones, with inductive invariants",
        text="All paths of 5/6 calls over a boundary gap alphabet for intervals 1,2,3,5 ns from 4 time offsets (window property checked directly); complete BFS over phases for intervals up to 1000 ns and depth-bounded for huge ones; constructor refusals; wait()/wait_sync() sleep == delay; one policer wait before every datagram in both clients. Plus discovery sessions, EAGAIN injected at every send, a reply lost mid-walk with the iterator asked again, policer and limit_rps together, limit_rps alone for every version, and a policer that asks for a delay.",
        note="interval = the integer nanosecond interval the policer uses (sub-ns truncation of 1/rps not judged)",
        ref="DESIGN.md s.3 C19",
    ),
}


def main():
    built = []
    for pid in sorted(CHECKS):
        if os.path.exists(os.path.join(VERIF, "vlib", "checks", pid.lower() + ".py")):
            built.append(pid)
    props = [json.loads(l) for l in open(os.path.join(VERIF, "properties.jsonl"))]
    commits = subprocess.run(
        ["git", "-C", "/repo", "log", "--format=%h %s"], capture_output=True, text=True
    ).stdout.splitlines()
    hook_commits = [c.split()[0] for c in commits if "verif feature" in c or c.split(" ", 1)[1].startswith("verif:")]
    m = {
        "version": 1,
        "setup_cmd": "/usr/bin/python3 /verif/vcheck setup",
        "hooks": {
            "guard": "cargo feature `verif` (cfg(feature = \"verif\"))",
            "enable": "generated manifests under /verif/.cache point [lib] path at /repo/src/lib.rs and enable default feature `verif`",
            "baseline_off_cmd": "cd /repo && CARGO_NET_OFFLINE=true cargo test --workspace --no-fail-fast --offline",
            "source_commits": hook_commits,
            "add_only": True,
        },
        "engines": [
            {"name": "PYX", "path": "/verif/vlib", "serves_properties": [p for p in built if "PYX" in CHECKS[p]["engine"]], "kind_free_text": "Python explorer driving the real _fast extension and the real client classes against a scripted in-process agent; explicit-state / history / input enumeration with reference models"},
            {"name": "LOOMX", "path": "/verif/vlib/loomx.py", "serves_properties": ["C03", "C17"], "kind_free_text": "loom (preemption-bounded exhaustive interleavings) over the real buf/pool.rs + buf/buffer.rs, std::sync mapped to loom::sync by a textual shim; secondary sub-check"},
            {"name": "MIRIX", "path": "/verif/vlib/mirix.py", "serves_properties": ["C17"], "kind_free_text": "Miri as an undefined-behaviour monitor over a small slice of the C17 buffer-operation enumeration (thorough tier only; not a deciding engine)"},
            {"name": "RSX", "path": "/verif/rs", "serves_properties": [p for p in built if "RSX" in CHECKS[p]["engine"]], "kind_free_text": "Rust explorer linked against /repo/src as an rlib: bounded-exhaustive enumeration at the crate's Rust API with independent reference codec"},
        ],
        "checks": [],
        "not_applicable": [],
        "notes": "All checks rebuild the subject from /repo's working tree (hash-keyed cache under /verif/.cache). Known findings: /verif/known_findings.json. Design: /verif/DESIGN.md.",
    }
    for p in props:
        pid = p["id"]
        if pid in built:
            c = CHECKS[pid]
            m["checks"].append(
                {
                    "property_id": pid,
                    "quick_cmd": "/usr/bin/python3 /verif/vcheck %s --tier quick" % pid,
                    "thorough_cmd": "/usr/bin/python3 /verif/vcheck %s --tier thorough" % pid,
                    "evidence_file": "/verif/evidence/%s.json" % pid,
                    "replay_cmd_template": "/usr/bin/python3 /verif/vcheck replay {path}",
                    "engine": c["engine"],
                    "level_claimed": {"category": c["category"], "text": c["text"], "design_ref": c["ref"]},
                    "level_note": c["note"],
                    "technique": c["technique"],
                }
            )
        else:
            m["not_applicable"].append({"property_id": pid, "reason": "check not built yet in this round (planned: see DESIGN.md s.5a); not claimed until its engine exists"})
    with open(os.path.join(VERIF, "MANIFEST.json"), "w") as f:
        json.dump(m, f, indent=1)
    print("manifest: %d checks, %d not claimed" % (len(m["checks"]), len(m["not_applicable"])))


if __name__ == "__main__":
    main()
