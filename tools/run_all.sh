#!/bin/bash
# usage: run_all.sh <tier> [repeat]   -- runs every check, prints one line each with time
T=${1:-quick}; N=${2:-1}
cd "$(dirname "$0")/.."
for r in $(seq 1 $N); do
for c in C01 C02 C03 C04 C05 C06 C07 C08 C09 C10 C11 C12 C13 C14 C15 C16 C17 C18 C19; do
  s=$(date +%s.%N)
  out=$(./vcheck $c --tier $T 2>&1); rc=$?
  e=$(date +%s.%N)
  printf "%s run=%d rc=%d wall=%.1fs :: %s\n" $c $r $rc $(echo "$e - $s" | bc) "$(echo "$out" | grep -E "^C[0-9]+ (quick|thorough)" | tail -1)"
  if [ $rc -ne 0 ]; then echo "$out" | grep -E "VIOLATION|signature|MACHINERY|KNOWN" | head -10; fi
done
done
