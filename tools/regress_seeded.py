#!/usr/bin/python3
"""Re-run the checks that are recorded as detecting each seeded change (seeded/<id>/meta.json: detected_by) against
that change applied to /repo, and report every check that no longer reports a violation.

usage: regress_seeded.py [--only C14,C18] [--ids C14-r1-1,...]      (applies to /repo, one change at a time, and undoes it)
"""
import json
import os
import subprocess
import sys

VERIF = os.path.dirname(os.path.dirname(os.path.abspath(__file__)))
only = ids = None
args = sys.argv[1:]
while args:
    a = args.pop(0)
    if a == "--only":
        only = set(args.pop(0).split(","))
    elif a == "--ids":
        ids = set(args.pop(0).split(","))
lost = []
n = 0
for sid in sorted(os.listdir(os.path.join(VERIF, "seeded"))):
    mf = os.path.join(VERIF, "seeded", sid, "meta.json")
    if not os.path.exists(mf):
        continue
    meta = json.load(open(mf))
    checks = [c for c in meta["detected_by"] if only is None or c in only]
    if ids is not None and sid not in ids:
        continue
    if not checks:
        continue
    if subprocess.run(["git", "-C", "/repo", "status", "--porcelain", "--untracked-files=no"], capture_output=True, text=True).stdout.strip():
        print("repo dirty")
        sys.exit(2)
    patch = os.path.join(VERIF, "seeded", sid, "patch.diff")
    if subprocess.run(["git", "-C", "/repo", "apply", patch]).returncode != 0:
        print(sid, "patch does not apply")
        lost.append((sid, "patch"))
        continue
    try:
        for chk in checks:
            p = subprocess.run([os.path.join(VERIF, "vcheck"), chk, "--tier", "quick"], capture_output=True, text=True)
            n += 1
            print(sid, chk, "exit", p.returncode, flush=True)
            if p.returncode != 1:
                lost.append((sid, chk))
    finally:
        subprocess.run(["git", "-C", "/repo", "checkout", "--", "."])
print("runs", n, "no longer detected:", lost)
sys.exit(1 if lost else 0)
