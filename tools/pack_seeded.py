#!/usr/bin/python3
"""Package confirmed seeded changes into /verif/seeded/<id>/ and write seeded/README.md.
usage: pack_seeded.py <round> <mut_root> <confirm_dir> <matrix_dir>"""
import glob, json, os, re, shutil, subprocess, sys

rnd, root, cdir, mdir = sys.argv[1:5]
out_root = "/verif/seeded"
os.makedirs(out_root, exist_ok=True)
head = subprocess.run(["git", "-C", "/repo", "rev-parse", "--short", "HEAD"], capture_output=True, text=True).stdout.strip()
for d in sorted(glob.glob(os.path.join(root, "C*", "out", "[12]"))):
    c = d.split("/")[-3]
    n = d.split("/")[-1]
    log = os.path.join(cdir, "%s-%s.log" % (c, n))
    if not os.path.exists(log):
        continue
    res = [l for l in open(log).read().splitlines() if l.startswith("RESULT")]
    if not res:
        continue
    m = re.search(r"tests=\[(.*?)\] demo_with_change_rc=(\d+) demo_without_change_rc=(\d+)", res[-1])
    if not m:
        print("skip", c, n, res[-1][:80]); continue
    tests, rc_with, rc_without = m.group(1), int(m.group(2)), int(m.group(3))
    if "104 passed; 0 failed" not in tests or rc_with == 0 or rc_without != 0:
        print("NOT CONFIRMED", c, n, tests[:40], rc_with, rc_without); continue
    sid = "%s-r%s-%s" % (c, rnd, n)
    dst = os.path.join(out_root, sid)
    shutil.rmtree(dst, ignore_errors=True)
    os.makedirs(dst)
    ported = os.path.exists(os.path.join(d, "patch.ported.diff"))
    shutil.copyfile(os.path.join(d, "patch.ported.diff" if ported else "patch.diff"), os.path.join(dst, "patch.diff"))
    if ported:
        shutil.copyfile(os.path.join(d, "patch.diff"), os.path.join(dst, "patch.as-delivered.diff"))
    for f in sorted(os.listdir(d)):
        p = os.path.join(d, f)
        if f.startswith(".") or f.startswith("patch") or f in ("target", "__pycache__", "Cargo.lock") or f.endswith(".so"):
            continue
        if os.path.isdir(p):
            shutil.copytree(p, os.path.join(dst, f), ignore=shutil.ignore_patterns("target", "__pycache__", "*.so", "Cargo.lock"))
        else:
            shutil.copyfile(p, os.path.join(dst, f))
    # shared helper files one level up (e.g. agentlib.py)
    for f in os.listdir(os.path.dirname(d)):
        p = os.path.join(os.path.dirname(d), f)
        if os.path.isfile(p) and f.endswith(".py"):
            shutil.copyfile(p, os.path.join(dst, f))
    note = open(os.path.join(d, "NOTE.md")).read() if os.path.exists(os.path.join(d, "NOTE.md")) else ""
    mfile = os.path.join(mdir, "%s-%s.json" % (c, n))
    det = json.load(open(mfile))["checks"] if os.path.exists(mfile) else {}
    meta = {
        "id": sid,
        "property": c,
        "origin": "fresh sub-agent (round %s) given only the property text and its own scratch worktree of /repo" % rnd,
        "what_it_needs_to_manifest": note.strip()[:3000],
        "files_changed": sorted(set(re.findall(r"^\+\+\+ b/(.*)$", open(os.path.join(dst, "patch.diff")).read(), re.M))),
        "patch_ported_to_current_tree": ported,
        "demo_replaced": os.path.exists(os.path.join(d, "demo.orig.py")),
        "confirmation": {
            "repo_commit": head,
            "procedure": "tools/confirm_mutant.sh in a scratch worktree: git apply; cargo test --offline; build extension (release, features verif); run demonstration; git checkout; rebuild; run demonstration",
            "repo_tests_with_change": tests,
            "demonstration_rc_with_change": rc_with,
            "demonstration_rc_without_change": rc_without,
        },
        "checks_run_against_it": {k: {"exit": v["exit"], "violation_signatures": v["violations"], "first": v["first_signatures"][:2]} for k, v in det.items()},
        "detected_by": sorted(k for k, v in det.items() if v["exit"] == 1),
        "how_to_run_checks": "git -C /repo apply /verif/seeded/%s/patch.diff; /verif/vcheck <Cxx> --tier quick; git -C /repo checkout -- ." % sid,
    }
    json.dump(meta, open(os.path.join(dst, "meta.json"), "w"), indent=1)
    print("packed", sid, "detected by", meta["detected_by"])
# README with the matrix
rows = []
for mf in sorted(glob.glob(os.path.join(out_root, "*", "meta.json"))):
    m = json.load(open(mf))
    first = (m["what_it_needs_to_manifest"].splitlines() or [""])
    summary = next((l.strip("# ").strip() for l in first if l.strip() and not l.startswith("#")), "")[:160]
    rows.append("| %s | %s | %s | %s | %s |" % (m["id"], ", ".join(m["files_changed"])[:60], ", ".join(m["detected_by"]) or "**none**", ", ".join(k for k in m["checks_run_against_it"] if k not in m["detected_by"]) or "-", summary.replace("|", "/")))
with open(os.path.join(out_root, "README.md"), "w") as f:
    f.write("# Seeded property-breaking changes\n\nEach directory holds `patch.diff` (applies to /repo's current tree), the demonstration (fails with the change, passes without it), and `meta.json`\n(what it breaks, what it needs in order to manifest, how it was confirmed, which checks were run against it). None of these is ever committed to /repo.\n\n`tools/regress_seeded.py` re-applies every change to /repo and re-runs the checks listed under \"detected by\"; see DESIGN.md s.5 for the last full run.\n\n")
    f.write("| id | files | detected by (quick tier) | also run, silent | what it is |\n|---|---|---|---|---|\n" + "\n".join(rows) + "\n")
print(len(rows), "seeded changes")
