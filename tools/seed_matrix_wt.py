#!/usr/bin/python3
"""Like seed_matrix.py, but each seeded change is applied in its own scratch worktree ($MUTROOT/<Cxx>, VERIF_REPO) so that
several properties can be processed in parallel and /repo stays untouched. The owning check runs first; siblings only while
nothing has reported the change (STOP_AT_FIRST=0 runs them all)."""
import json, os, subprocess, sys
from concurrent.futures import ThreadPoolExecutor

sys.path.insert(0, os.path.dirname(__file__))
from seed_matrix import MAP  # noqa: E402  (import has no side effects beyond definitions when run as module? see guard below)

MUTROOT = os.environ.get("MUTROOT", "/tmp/mut")
OUT = os.environ.get("MATRIXDIR", "/root/scratch/matrix")
STOP = os.environ.get("STOP_AT_FIRST", "1") == "1"
PAR = int(os.environ.get("PAR", "4"))
os.makedirs(OUT, exist_ok=True)
only = sys.argv[1:]
HEAD = subprocess.run(["git", "-C", "/repo", "rev-parse", "HEAD"], capture_output=True, text=True).stdout.strip()


def one_property(c):
    w = "%s/%s" % (MUTROOT, c)
    for n in (1, 2):
        d = "%s/out/%d" % (w, n)
        patch = os.path.join(d, "patch.ported.diff") if os.path.exists(os.path.join(d, "patch.ported.diff")) else os.path.join(d, "patch.diff")
        tag = "%s-%d" % (c, n)
        if not os.path.exists(patch) or (only and tag not in only):
            continue
        res = {"mutant": tag, "checks": {}}
        subprocess.run(["git", "-C", w, "checkout", "-q", "--", "."])
        subprocess.run(["git", "-C", w, "checkout", "-q", "--detach", HEAD])
        if subprocess.run(["git", "-C", w, "apply", patch]).returncode != 0:
            res["error"] = "patch does not apply"
        else:
            try:
                env = dict(os.environ, VERIF_REPO=w)
                for chk in MAP[c]:
                    p = subprocess.run(["/verif/vcheck", chk, "--tier", "quick"], capture_output=True, text=True, env=env)
                    sigs = [l.strip()[len("signature: "):] for l in p.stdout.splitlines() if l.strip().startswith("signature:")]
                    res["checks"][chk] = {"exit": p.returncode, "violations": len(sigs), "first_signatures": sigs[:3]}
                    if STOP and p.returncode == 1:
                        break
            finally:
                subprocess.run(["git", "-C", w, "checkout", "-q", "--", "."])
        json.dump(res, open(os.path.join(OUT, tag + ".json"), "w"), indent=1)
        print(tag, {k: (v["exit"], v["violations"]) for k, v in res["checks"].items()}, flush=True)


with ThreadPoolExecutor(PAR) as ex:
    list(ex.map(one_property, sorted(MAP)))
