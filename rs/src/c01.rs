//! C01 (Rust side): every decoder entry point is total - bounded-exhaustive inputs.

use crate::refber as rb;
use crate::{guarded, hex, jstr, panic_class, par_shards, unhex, Report};
use gufo_snmp::ber::{
    BerDecoder, BerHeader, SnmpBool, SnmpCounter32, SnmpCounter64, SnmpGauge32, SnmpInt, SnmpIpAddress, SnmpNull,
    SnmpObjectDescriptor, SnmpOctetString, SnmpOid, SnmpOpaque, SnmpOption, SnmpReal, SnmpRelativeOid, SnmpSequence,
    SnmpTimeTicks, SnmpUInteger32,
};
use gufo_snmp::snmp::get::SnmpGet;
use gufo_snmp::snmp::getbulk::SnmpGetBulk;
use gufo_snmp::snmp::getresponse::SnmpGetResponse;
use gufo_snmp::snmp::msg::v3::{MsgData, ScopedPdu, UsmParameters};
use gufo_snmp::snmp::msg::{SnmpV1Message, SnmpV2cMessage, SnmpV3Message};
use gufo_snmp::snmp::pdu::SnmpPdu;
use gufo_snmp::snmp::value::SnmpValue;
use gufo_snmp::verif::{response_repr, value_repr, PrivKey, SnmpPriv, VerifValue};
use std::sync::atomic::{AtomicU64, Ordering};
use std::sync::Mutex;

pub const ENTRIES: &[&str] = &[
    "BerHeader", "SnmpInt", "SnmpOctetString", "SnmpSequence", "SnmpOid", "SnmpRelativeOid", "SnmpNull", "SnmpOption",
    "SnmpReal", "SnmpBool", "SnmpIpAddress", "SnmpCounter32", "SnmpCounter64", "SnmpGauge32", "SnmpTimeTicks",
    "SnmpUInteger32", "SnmpOpaque", "SnmpObjectDescriptor", "SnmpValue", "SnmpGet", "SnmpGetBulk", "SnmpGetResponse",
    "SnmpPdu", "UsmParameters", "ScopedPdu", "MsgData", "SnmpV1Message", "SnmpV2cMessage", "SnmpV3Message",
];
const MAJOR: &[usize] = &[0, 18, 21, 22, 26, 27, 28];

fn stringify(oid: &[u8]) {
    let o = SnmpOid::from(oid.to_vec());
    let _ = String::try_from(&o);
}

fn post_response(r: SnmpGetResponse) {
    let rr = response_repr(r);
    for (oid, v) in rr.vars.iter() {
        stringify(oid);
        if let VerifValue::Oid(b) = v {
            stringify(b);
        }
    }
}

fn post_pdu(p: SnmpPdu) {
    match p {
        SnmpPdu::GetResponse(r) => post_response(r),
        SnmpPdu::GetRequest(g) | SnmpPdu::GetNextRequest(g) => {
            for o in g.vars.iter() {
                let _ = String::try_from(o);
            }
        }
        SnmpPdu::GetBulkRequest(g) => {
            let (_, _, _, oids) = gufo_snmp::verif::getbulk_repr(&g);
            for o in oids.iter() {
                stringify(o);
            }
        }
        SnmpPdu::Report(_) => {}
    }
}

/// Call one entry point (and what the Python layer would do with its result). true = decoded.
pub fn call(entry: usize, d: &[u8]) -> bool {
    match entry {
        0 => BerHeader::from_ber(d).is_ok(),
        1 => SnmpInt::from_ber(d).is_ok(),
        2 => SnmpOctetString::from_ber(d).is_ok(),
        3 => SnmpSequence::from_ber(d).is_ok(),
        4 => match SnmpOid::from_ber(d) {
            Ok((_, o)) => {
                let _ = String::try_from(&o);
                true
            }
            Err(_) => false,
        },
        5 => SnmpRelativeOid::from_ber(d).is_ok(),
        6 => SnmpNull::from_ber(d).is_ok(),
        7 => SnmpOption::from_ber(d).is_ok(),
        8 => SnmpReal::from_ber(d).is_ok(),
        9 => SnmpBool::from_ber(d).is_ok(),
        10 => match SnmpIpAddress::from_ber(d) {
            Ok((_, a)) => {
                let _ = String::from(&a);
                true
            }
            Err(_) => false,
        },
        11 => SnmpCounter32::from_ber(d).is_ok(),
        12 => SnmpCounter64::from_ber(d).is_ok(),
        13 => SnmpGauge32::from_ber(d).is_ok(),
        14 => SnmpTimeTicks::from_ber(d).is_ok(),
        15 => SnmpUInteger32::from_ber(d).is_ok(),
        16 => SnmpOpaque::from_ber(d).is_ok(),
        17 => SnmpObjectDescriptor::from_ber(d).is_ok(),
        18 => match SnmpValue::from_ber(d) {
            Ok((_, v)) => {
                if let VerifValue::Oid(b) = value_repr(v) {
                    stringify(&b);
                }
                true
            }
            Err(_) => false,
        },
        19 => SnmpGet::try_from(d).is_ok(),
        20 => SnmpGetBulk::try_from(d).is_ok(),
        21 => match SnmpGetResponse::try_from(d) {
            Ok(r) => {
                post_response(r);
                true
            }
            Err(_) => false,
        },
        22 => match SnmpPdu::try_from(d) {
            Ok(p) => {
                post_pdu(p);
                true
            }
            Err(_) => false,
        },
        23 => UsmParameters::try_from(d).is_ok(),
        24 => match ScopedPdu::try_from(d) {
            Ok(s) => {
                post_pdu(s.pdu);
                true
            }
            Err(_) => false,
        },
        25 => match MsgData::try_from(d) {
            Ok(MsgData::Plaintext(s)) => {
                post_pdu(s.pdu);
                true
            }
            Ok(_) => true,
            Err(_) => false,
        },
        26 => match SnmpV1Message::try_from(d) {
            Ok(m) => {
                post_pdu(m.pdu);
                true
            }
            Err(_) => false,
        },
        27 => match SnmpV2cMessage::try_from(d) {
            Ok(m) => {
                post_pdu(m.pdu);
                true
            }
            Err(_) => false,
        },
        28 => match SnmpV3Message::try_from(d) {
            Ok(m) => {
                if let MsgData::Plaintext(s) = m.data {
                    post_pdu(s.pdu);
                }
                true
            }
            Err(_) => false,
        },
        _ => false,
    }
}

fn eval(entry: usize, d: &[u8], rep: &mut Report, kind: &str, ok: &mut u64, err: &mut u64) {
    match guarded(|| call(entry, d)) {
        Ok(true) => *ok += 1,
        Ok(false) => *err += 1,
        Err(msg) => {
            rep.violation(
                &format!("panic/{}/{}", ENTRIES[entry], panic_class(&msg)),
                format!("{}({}) panicked: {} [{}]", ENTRIES[entry], hex(&d[..d.len().min(64)]), msg, kind),
                format!("{{\"entry\": {}, \"hex\": {}}}", jstr(ENTRIES[entry]), jstr(&hex(d))),
            );
        }
    }
}

/// Alphabet with one representative of every tag / class / PDU type / length form the decoders branch on.
pub fn sigma30() -> Vec<u8> {
    use gufo_snmp::ber::*;
    let mut s: Vec<u8> = vec![
        0x00, TAG_BOOL, TAG_INT, 0x03, TAG_OCTET_STRING, TAG_NULL, TAG_OBJECT_ID, TAG_OBJECT_DESCRIPTOR, TAG_REAL, TAG_RELATIVE_OID,
        0x1f, 0x20 | TAG_SEQUENCE, 0x40 | TAG_APP_IPADDRESS, 0x40 | TAG_APP_COUNTER32, 0x40 | TAG_APP_GAUGE32, 0x40 | TAG_APP_TIMETICKS,
        0x40 | TAG_APP_OPAQUE, 0x40 | TAG_APP_COUNTER64, 0x40 | TAG_APP_UINTEGER32, 0x7f, 0x80 | TAG_CTX_NO_SUCH_OBJECT,
        0x80 | TAG_CTX_NO_SUCH_INSTANCE, 0x80 | TAG_CTX_END_OF_MIB_VIEW, 0x84, 0xa0, 0xa1, 0xa2, 0xa5, 0xa8, 0xff,
    ];
    s.sort();
    s.dedup();
    s
}

pub fn sigma8() -> Vec<u8> {
    vec![0x00, 0x02, 0x04, 0x06, 0x30, 0x81, 0xa2, 0xff]
}

/// All strings of exactly `len` over `alpha` whose first `fixed.len()` symbols are `fixed`.
fn enum_strings(entries: &[usize], alpha: &[u8], len: usize, fixed: &[u8], rep: &mut Report, kind: &str, beat: &AtomicU64) {
    let n = alpha.len();
    let free = len - fixed.len();
    let mut idx = vec![0usize; free];
    let mut buf = vec![0u8; len];
    buf[..fixed.len()].copy_from_slice(fixed);
    let (mut ok, mut err) = (0u64, 0u64);
    'outer: loop {
        for (i, &k) in idx.iter().enumerate() {
            buf[fixed.len() + i] = alpha[k];
        }
        for &e in entries {
            eval(e, &buf, rep, kind, &mut ok, &mut err);
        }
        beat.fetch_add(1, Ordering::Relaxed);
        if rep.nviol() > 2000 {
            rep.caps.push("shard stopped after 2000 panics".into());
            break;
        }
        // odometer
        let mut p = free;
        loop {
            if p == 0 {
                break 'outer;
            }
            p -= 1;
            idx[p] += 1;
            if idx[p] < n {
                break;
            }
            idx[p] = 0;
        }
        if free == 0 {
            break;
        }
    }
    rep.count("decodes", ok + err);
    rep.count("e1_strings", (ok + err) / entries.len().max(1) as u64);
    rep.outcome("decoded", ok);
    rep.outcome("rejected", err);
}

// ------------------------------------------------------------------ skeleton corpus

pub struct Skel {
    pub name: String,
    pub entry: usize,
    pub data: Vec<u8>,
    pub big: bool,
}

fn value_kinds() -> Vec<(&'static str, Vec<u8>)> {
    vec![
        ("int", rb::enc_int(-129)),
        ("octets", rb::enc_octets(b"hi")),
        ("null", vec![5, 0]),
        ("oid", rb::enc_oid(&[1, 3, 6, 1, 4, 1, 2011])),
        ("objdesc", rb::tlv(0x07, b"descr")),
        ("real", rb::tlv(0x09, &[0x03, b'1', b'7', b'E', b'0'])),
        ("realbin", rb::tlv(0x09, &[0x80, 0x01, 0x03])),
        ("ipaddr", rb::tlv(0x40, &[10, 0, 0, 1])),
        ("counter32", rb::tlv(0x41, &[7])),
        ("gauge32", rb::tlv(0x42, &[1, 44])),
        ("timeticks", rb::tlv(0x43, &[1, 17, 112])),
        ("opaque", rb::tlv(0x44, &[0x9f, 0x78])),
        ("counter64", rb::tlv(0x46, &[0, 0x80, 0, 0, 0, 0, 0, 0, 5])),
        ("uint32", rb::tlv(0x47, &[5])),
        ("bool", rb::tlv(0x01, &[0xff])),
        ("nosuchobject", vec![0x80, 0]),
        ("nosuchinstance", vec![0x81, 0]),
        ("endofmibview", vec![0x82, 0]),
    ]
}

fn wrap(version: usize, pdu: &[u8]) -> (usize, Vec<u8>) {
    match version {
        0 => (26, rb::community_msg(0, b"public", pdu)),
        1 => (27, rb::community_msg(1, b"public", pdu)),
        _ => {
            let sc = rb::scoped(b"\x80\x00\x1f\x88\x04eng", b"", pdu);
            let usm = rb::usm(b"\x80\x00\x1f\x88\x04eng", 7, 300, b"user1", b"", b"");
            (28, rb::v3_msg(0x1234567, 65507, 0x04, &usm, &sc))
        }
    }
}

pub fn corpus() -> Vec<Skel> {
    let mut out = Vec::new();
    let name = |i: u64| rb::enc_oid(&[1, 3, 6, 1, 2, 1, 2, 2, 1, 10, i]);
    let filler = rb::enc_int(1);
    for version in 0..3usize {
        let vn = ["v1", "v2c", "v3"][version];
        for (kn, vt) in value_kinds() {
            for pos in 0..3 {
                let mut vbs = Vec::new();
                for i in 0..3 {
                    vbs.push(rb::varbind(&name(i as u64 + 1), if i == pos { &vt } else { &filler }));
                }
                let (entry, data) = wrap(version, &rb::pdu(0xa2, 0x2085_11, 0, 0, &vbs));
                out.push(Skel { name: format!("{}/response/{}@{}", vn, kn, pos), entry, data, big: false });
            }
        }
        // relative OID varbind names in the shapes normalize() distinguishes
        for (sn, rel) in [("single", vec![12u8]), ("two", vec![11, 10]), ("same", vec![1, 3, 6, 1, 2]), ("all", vec![1, 3, 6, 2, 1, 5]), ("long", vec![0x87, 0x67, 3])] {
            let vbs = vec![rb::varbind(&name(11), &filler), rb::varbind(&rb::tlv(0x0d, &rel), &filler), rb::varbind(&rb::tlv(0x0d, &rel), &rb::enc_octets(b"x"))];
            let (entry, data) = wrap(version, &rb::pdu(0xa2, 77, 0, 0, &vbs));
            out.push(Skel { name: format!("{}/response/relative-{}", vn, sn), entry, data, big: false });
        }
        let (entry, data) = wrap(version, &rb::pdu(0xa2, 1, 0, 0, &[]));
        out.push(Skel { name: format!("{}/response/empty", vn), entry, data, big: false });
        let forty: Vec<Vec<u8>> = (0..40).map(|i| rb::varbind(&name(i), &rb::enc_int(i as i64 * 1000 - 5))).collect();
        let (entry, data) = wrap(version, &rb::pdu(0xa2, 1, 0, 0, &forty));
        out.push(Skel { name: format!("{}/response/forty", vn), entry, data, big: true });
        for status in [1i64, 2, 3, 5, 18] {
            let (entry, data) = wrap(version, &rb::pdu(0xa2, 5, status, 1, &[rb::varbind(&name(1), &[5, 0]), rb::varbind(&name(2), &rb::enc_int(3))]));
            out.push(Skel { name: format!("{}/response/error-status-{}", vn, status), entry, data, big: false });
        }
        for (pn, tag) in [("get", 0xa0u8), ("getnext", 0xa1), ("getbulk", 0xa5), ("report", 0xa8), ("trap", 0xa7)] {
            let vbs = vec![rb::varbind(&name(1), &[5, 0]), rb::varbind(&name(2), &[5, 0])];
            let (entry, data) = wrap(version, &rb::pdu(tag, 0x7fffffff, 0, if tag == 0xa5 { 10 } else { 0 }, &vbs));
            out.push(Skel { name: format!("{}/{}", vn, pn), entry, data, big: false });
        }
        let huge = vec![rb::varbind(&name(1), &rb::enc_octets(&vec![0x41u8; 3900]))];
        let (entry, data) = wrap(version, &rb::pdu(0xa2, 1, 0, 0, &huge));
        out.push(Skel { name: format!("{}/response/huge-octets", vn), entry, data, big: true });
        let tiny: Vec<Vec<u8>> = (0..480).map(|_| rb::varbind(&rb::enc_oid(&[1, 3]), &[5, 0])).collect();
        let (entry, data) = wrap(version, &rb::pdu(0xa2, 1, 0, 0, &tiny));
        out.push(Skel { name: format!("{}/response/many-tiny", vn), entry, data, big: true });
    }
    // v3 with auth placeholder and an encrypted payload
    let usm = rb::usm(b"\x80\x00\x1f\x88\x04eng", 0x7fffffff, 0, b"u", &[0u8; 12], &[1, 2, 3, 4, 5, 6, 7, 8]);
    out.push(Skel { name: "v3/encrypted".into(), entry: 28, data: rb::v3_msg(1, 65507, 0x03, &usm, &rb::enc_octets(&[0x55u8; 48])), big: false });
    out.push(Skel { name: "usm".into(), entry: 23, data: usm.clone(), big: false });
    out
}

fn with_sub(base: &[u8], pos: usize, b: u8) -> Vec<u8> {
    let mut v = base.to_vec();
    v[pos] = b;
    v
}

/// E2: k-deviations of one skeleton
fn deviate(sk: &Skel, thorough: bool, rep: &mut Report, beat: &AtomicU64) {
    let d = &sk.data;
    let n = d.len();
    let s30 = sigma30();
    let s8 = sigma8();
    let (mut ok, mut err) = (0u64, 0u64);
    let kind = format!("E2 {}", sk.name);
    eval(sk.entry, d, rep, &kind, &mut ok, &mut err);
    if ok != 1 {
        rep.notes.push(format!("skeleton {} is not accepted by the subject", sk.name));
    }
    for t in 0..n {
        eval(sk.entry, &d[..t], rep, &kind, &mut ok, &mut err);
    }
    let sub_alpha: Vec<u8> = if sk.big { s8.clone() } else { (0..=255u8).collect() };
    let mut v = d.to_vec();
    for pos in 0..n {
        let orig = v[pos];
        for &b in &sub_alpha {
            if b != orig {
                v[pos] = b;
                eval(sk.entry, &v, rep, &kind, &mut ok, &mut err);
            }
        }
        v[pos] = orig;
        beat.fetch_add(1, Ordering::Relaxed);
    }
    if !sk.big {
        for pos in 0..=n {
            for &b in &s30 {
                let mut w = Vec::with_capacity(n + 1);
                w.extend_from_slice(&d[..pos]);
                w.push(b);
                w.extend_from_slice(&d[pos..]);
                eval(sk.entry, &w, rep, &kind, &mut ok, &mut err);
            }
            if pos < n {
                let mut w = d[..pos].to_vec();
                w.extend_from_slice(&d[pos + 1..]);
                eval(sk.entry, &w, rep, &kind, &mut ok, &mut err);
            }
        }
        let pair_alpha = if thorough { &s30 } else { &s8 };
        for p1 in 0..n {
            for &b1 in pair_alpha.iter() {
                if b1 == d[p1] {
                    continue;
                }
                v[p1] = b1;
                for p2 in p1 + 1..n {
                    let o2 = v[p2];
                    for &b2 in pair_alpha.iter() {
                        if b2 != o2 {
                            v[p2] = b2;
                            eval(sk.entry, &v, rep, &kind, &mut ok, &mut err);
                        }
                    }
                    v[p2] = o2;
                }
                v[p1] = d[p1];
            }
            beat.fetch_add(1, Ordering::Relaxed);
            if rep.nviol() > 5000 {
                rep.caps.push(format!("pair substitutions of {} stopped after 5000 panics", sk.name));
                break;
            }
        }
    }
    rep.count("decodes", ok + err);
    rep.count("e2_inputs", ok + err);
    rep.outcome("decoded", ok);
    rep.outcome("rejected", err);
}

/// E3: header tampering of every TLV node
fn tamper(sk: &Skel, thorough: bool, rep: &mut Report, beat: &AtomicU64) {
    let d = &sk.data;
    let nodes = rb::all_nodes(d);
    let s30 = sigma30();
    let s8 = sigma8();
    let (mut ok, mut err) = (0u64, 0u64);
    let kind = format!("E3 {}", sk.name);
    for node in nodes.iter() {
        if sk.big && node.depth > 4 && node.start > 400 {
            continue;
        }
        let l = node.len;
        let mut lens: Vec<Vec<u8>> = Vec::new();
        for dl in [-2i64, -1, 1, 2, 127] {
            let nl = l as i64 + dl;
            if nl >= 0 {
                lens.push(rb::enc_len(nl as usize));
            }
        }
        lens.push(vec![0]);
        lens.push(vec![0x7f]);
        lens.push(vec![0x80]);
        lens.push(vec![0x81, l as u8]);
        lens.push(vec![0x82, (l >> 8) as u8, l as u8]);
        lens.push(vec![0x83, 0, (l >> 8) as u8, l as u8]);
        lens.push(vec![0x84, 0, 0, (l >> 8) as u8, l as u8]);
        lens.push(vec![0x83, 1, (l >> 8) as u8, l as u8]);
        lens.push(vec![0x84, 1, 0, (l >> 8) as u8, l as u8]);
        lens.push(vec![0x85, 1, 0, 0, (l >> 8) as u8, l as u8]);
        lens.push(vec![0x88, 0, 0, 0, 0, 0, 0, (l >> 8) as u8, l as u8]);
        lens.push(vec![0x88, 0x80, 0, 0, 0, 0, 0, 0, l as u8]);
        lens.push(vec![0x89, 1, 0, 0, 0, 0, 0, 0, 0, l as u8]);
        lens.push(vec![0xff]);
        lens.push(vec![0x84, 0xff, 0xff, 0xff, 0xff]);
        lens.push(vec![0x88, 0xff, 0xff, 0xff, 0xff, 0xff, 0xff, 0xff, 0xff]);
        let mut variants: Vec<Vec<u8>> = Vec::new();
        for le in lens.iter() {
            let mut w = d[..node.start + 1].to_vec();
            w.extend_from_slice(le);
            w.extend_from_slice(&d[node.cstart()..]);
            variants.push(w);
        }
        for &t in s30.iter() {
            variants.push(with_sub(d, node.start, t));
        }
        for tail in [vec![0x1fu8, 0x80], vec![0x1f, 0x80, 0x80, 0x01], vec![0x3f, 0xff, 0xff, 0xff, 0xff, 0x7f], vec![0xbf, 0x22]] {
            let mut w = d[..node.start].to_vec();
            w.extend_from_slice(&tail);
            w.extend_from_slice(&d[node.start + 1..]);
            variants.push(w);
        }
        for w in variants.iter() {
            eval(sk.entry, w, rep, &kind, &mut ok, &mut err);
            if thorough && !sk.big {
                let mut x = w.clone();
                for pos in 0..x.len() {
                    let o = x[pos];
                    for &b in s8.iter() {
                        if b != o {
                            x[pos] = b;
                            eval(sk.entry, &x, rep, &kind, &mut ok, &mut err);
                        }
                    }
                    x[pos] = o;
                }
            }
        }
        beat.fetch_add(1, Ordering::Relaxed);
    }
    rep.count("decodes", ok + err);
    rep.count("e3_inputs", ok + err);
    rep.count("e3_nodes", nodes.len() as u64);
    rep.outcome("decoded", ok);
    rep.outcome("rejected", err);
}

// ------------------------------------------------------------------ E4: privacy decrypt path

pub fn des_cbc_encrypt(key: &[u8], iv: &[u8], data: &[u8]) -> Vec<u8> {
    use cipher::{BlockEncrypt, KeyInit};
    let c = des::Des::new_from_slice(key).unwrap();
    let mut prev = iv.to_vec();
    let mut out = Vec::new();
    for chunk in data.chunks(8) {
        let mut b = [0u8; 8];
        b[..chunk.len()].copy_from_slice(chunk);
        for i in 0..8 {
            b[i] ^= prev[i];
        }
        let mut blk = cipher::generic_array::GenericArray::clone_from_slice(&b);
        c.encrypt_block(&mut blk);
        prev = blk.to_vec();
        out.extend_from_slice(&blk);
    }
    out
}

pub fn aes_cfb_encrypt(key: &[u8], iv: &[u8], data: &[u8]) -> Vec<u8> {
    use cipher::{BlockEncrypt, KeyInit};
    let c = aes::Aes128::new_from_slice(key).unwrap();
    let mut prev = iv.to_vec();
    let mut out = Vec::new();
    for chunk in data.chunks(16) {
        let mut blk = cipher::generic_array::GenericArray::clone_from_slice(&prev);
        c.encrypt_block(&mut blk);
        let ct: Vec<u8> = chunk.iter().zip(blk.iter()).map(|(a, b)| a ^ b).collect();
        prev = ct.clone();
        prev.resize(16, 0);
        out.extend_from_slice(&ct);
    }
    out
}

pub const KEY: [u8; 20] = [1, 2, 3, 4, 5, 6, 7, 8, 9, 10, 11, 12, 13, 14, 15, 16, 17, 18, 19, 20];

fn decrypt_call(alg: u8, ct: &[u8], salt: &[u8], boots: i64, time: i64) -> bool {
    let mut k = match PrivKey::new(alg) {
        Ok(k) => k,
        Err(_) => return false,
    };
    if k.as_localized(&KEY).is_err() {
        return false;
    }
    let usm = UsmParameters { engine_id: b"\x80\x00\x1f\x88\x04eng", engine_boots: boots, engine_time: time, user_name: b"u", auth_params: &[], privacy_params: salt };
    match k.decrypt(ct, &usm) {
        Ok(s) => {
            post_pdu(s.pdu);
            true
        }
        Err(_) => false,
    }
}

fn decrypt_path(thorough: bool, rep: &mut Report, beat: &AtomicU64) {
    let (mut ok, mut err, mut n) = (0u64, 0u64, 0u64);
    let mut run = |alg: u8, ct: &[u8], salt: &[u8], boots: i64, time: i64, rep: &mut Report, what: &str| {
        n += 1;
        match guarded(|| decrypt_call(alg, ct, salt, boots, time)) {
            Ok(true) => ok += 1,
            Ok(false) => err += 1,
            Err(msg) => rep.violation(
                &format!("panic/decrypt-{}/{}", if alg == 1 { "des" } else { "aes" }, panic_class(&msg)),
                format!("decrypt({} ciphertext octets, salt of {} octets) panicked: {} [{}]", ct.len(), salt.len(), msg, what),
                format!("{{\"entry\": \"decrypt\", \"alg\": {}, \"hex\": {}, \"salt\": {}, \"boots\": {}, \"time\": {}}}", alg, jstr(&hex(ct)), jstr(&hex(salt)), boots, time),
            ),
        }
    };
    let salt16: Vec<u8> = (1..=16).collect();
    let mut lens: Vec<usize> = (0..=64).collect();
    lens.extend(4064..=4080);
    for alg in [1u8, 2] {
        for sl in 0..=16usize {
            for &cl in lens.iter() {
                for pat in [0x00u8, 0x30, 0xff] {
                    let ct = vec![pat; cl];
                    run(alg, &ct, &salt16[..sl], 1, 2, rep, "raw pattern");
                }
            }
            beat.fetch_add(1, Ordering::Relaxed);
        }
        for (b, t) in [(0i64, 0i64), (-1, -1), (i64::MAX, i64::MIN), (0x7fffffff, 0x80000000)] {
            run(alg, &[0x11u8; 32], &salt16[..8], b, t, rep, "boots/time extremes");
        }
    }
    // deviations of a valid scoped PDU, encrypted with the session key
    let pdu = rb::pdu(0xa2, 99, 0, 0, &[rb::varbind(&rb::enc_oid(&[1, 3, 6, 1, 2, 1, 1, 5, 0]), &rb::enc_octets(b"host")), rb::varbind(&rb::tlv(0x0d, &[7]), &rb::tlv(0x46, &[0, 0xff, 1, 2, 3, 4, 5, 6, 7]))]);
    let sc = rb::scoped(b"\x80\x00\x1f\x88\x04eng", b"", &pdu);
    let salt = [9u8, 8, 7, 6, 5, 4, 3, 2];
    let s30 = sigma30();
    let alpha: Vec<u8> = if thorough { (0..=255u8).collect() } else { s30 };
    for alg in [1u8, 2] {
        let mut variants: Vec<Vec<u8>> = vec![sc.clone()];
        for t in 0..sc.len() {
            variants.push(sc[..t].to_vec());
        }
        for pos in 0..sc.len() {
            for &b in alpha.iter() {
                if b != sc[pos] {
                    variants.push(with_sub(&sc, pos, b));
                }
            }
        }
        for v in variants.iter() {
            let ct = if alg == 1 {
                let iv: Vec<u8> = KEY[8..16].iter().zip(salt.iter()).map(|(a, b)| a ^ b).collect();
                des_cbc_encrypt(&KEY[..8], &iv, v)
            } else {
                let mut iv = vec![0, 0, 0, 1, 0, 0, 0, 2];
                iv.extend_from_slice(&salt);
                aes_cfb_encrypt(&KEY[..16], &iv, v)
            };
            run(alg, &ct, &salt, 1, 2, rep, "encrypted deviation of a scoped PDU");
        }
        beat.fetch_add(1, Ordering::Relaxed);
    }
    rep.count("decodes", n);
    rep.count("e4_decrypts", n);
    rep.outcome("decoded", ok);
    rep.outcome("rejected", err);
}

/// E5: every short relative-OID varbind name after every short absolute name (normalize() index arithmetic)
fn relative_grid(rep: &mut Report, beat: &AtomicU64) {
    let (mut ok, mut err) = (0u64, 0u64);
    let mut alpha = sigma8();
    alpha.extend_from_slice(&[0x01, 0x05, 0x27, 0x28, 0x7f, 0x80]);
    alpha.sort();
    alpha.dedup();
    let bases: Vec<Vec<u8>> = vec![vec![], vec![0x2b], vec![0x2b, 6], vec![0x2b, 6, 1], vec![0x2b, 0x81, 0x00], vec![0x2b, 0x81], vec![0x2b, 6, 1, 2, 1, 2, 2, 1, 10, 11]];
    let mut rels: Vec<Vec<u8>> = vec![vec![]];
    for &a in alpha.iter() {
        rels.push(vec![a]);
        for &b in alpha.iter() {
            rels.push(vec![a, b]);
            for &c in alpha.iter() {
                rels.push(vec![a, b, c]);
            }
        }
    }
    for base in bases.iter() {
        for rel in rels.iter() {
            for second_rel in [false, true] {
                let mut vbs = vec![rb::varbind(&rb::tlv(0x06, base), &rb::enc_int(1)), rb::varbind(&rb::tlv(0x0d, rel), &rb::enc_int(2))];
                if second_rel {
                    vbs.push(rb::varbind(&rb::tlv(0x0d, rel), &rb::enc_octets(b"z")));
                }
                for version in 0..3usize {
                    let (entry, data) = wrap(version, &rb::pdu(0xa2, 7, 0, 0, &vbs));
                    eval(entry, &data, rep, "E5 relative-OID grid", &mut ok, &mut err);
                }
            }
        }
        beat.fetch_add(1, Ordering::Relaxed);
    }
    rep.count("decodes", ok + err);
    rep.count("e5_inputs", ok + err);
    rep.outcome("decoded", ok);
    rep.outcome("rejected", err);
}

pub fn run(thorough: bool) -> Report {
    let all: Vec<usize> = (0..ENTRIES.len()).collect();
    let full: Vec<u8> = (0..=255u8).collect();
    let s30 = sigma30();
    let s8 = sigma8();
    // ---- E1 shards: (alphabet id, length, first symbol index)
    let mut shards: Vec<(u8, usize, Option<u8>, bool)> = Vec::new(); // (alphabet, len, fixed first byte, major-only)
    for len in 0..=2 {
        shards.push((0, len, None, false));
    }
    for &b in full.iter() {
        shards.push((0, 3, Some(b), false));
        if thorough {
            shards.push((0, 4, Some(b), true));
        }
    }
    for len in 0..=3 {
        shards.push((1, len, None, false));
    }
    for &b in s30.iter() {
        for len in 4..=(if thorough { 6 } else { 5 }) {
            shards.push((1, len, Some(b), false));
        }
    }
    for &b in s8.iter() {
        for len in 6..=(if thorough { 10 } else { 8 }) {
            shards.push((2, len, Some(b), len > 8));
        }
    }
    let mut total = par_shards(shards.len(), |i, rep, beat, label| {
        let (a, len, first, major) = shards[i];
        let alpha: &[u8] = match a {
            0 => &full,
            1 => &s30,
            _ => &s8,
        };
        *label.lock().unwrap() = format!("E1 alphabet {} length {} first byte {:?}", a, len, first);
        let entries: &[usize] = if major { MAJOR } else { &all };
        let fixed: Vec<u8> = first.map(|b| vec![b]).unwrap_or_default();
        if len >= fixed.len() {
            enum_strings(entries, alpha, len, &fixed, rep, "E1", beat);
        }
        label.lock().unwrap().clear();
    });
    // ---- E2 / E3 on the skeleton corpus
    let skels = corpus();
    total.count("skeletons", skels.len() as u64);
    let r2 = par_shards(skels.len() * 2, |i, rep, beat, label: &Mutex<String>| {
        let sk = &skels[i / 2];
        *label.lock().unwrap() = format!("{} of skeleton {}", if i % 2 == 0 { "E2" } else { "E3" }, sk.name);
        if i % 2 == 0 {
            deviate(sk, thorough, rep, beat);
        } else {
            tamper(sk, thorough, rep, beat);
        }
        label.lock().unwrap().clear();
    });
    total.merge(r2);
    let r4 = par_shards(2, |i, rep, beat, label| {
        if i == 0 {
            *label.lock().unwrap() = "E4 decrypt path".into();
            decrypt_path(thorough, rep, beat);
        } else {
            *label.lock().unwrap() = "E5 relative-OID grid".into();
            relative_grid(rep, beat);
        }
        label.lock().unwrap().clear();
    });
    total.merge(r4);
    total.sample(format!("{{\"entry\": \"SnmpV2cMessage\", \"skeleton_hex\": {}}}", jstr(&hex(&skels[0].data))));
    total.sample(format!("{{\"alphabet_sigma30\": {}}}", jstr(&hex(&s30))));
    total
}

pub fn replay(_kind: &str, json: &str) -> String {
    // json: {"entry": "...", "hex": "..."} (decrypt cases carry alg/salt/boots/time)
    let get = |k: &str| -> Option<String> {
        let pat = format!("\"{}\": ", k);
        let i = json.find(&pat)? + pat.len();
        let rest = &json[i..];
        if let Some(stripped) = rest.strip_prefix('"') {
            Some(stripped[..stripped.find('"')?].to_string())
        } else {
            let end = rest.find([',', '}']).unwrap_or(rest.len());
            Some(rest[..end].trim().to_string())
        }
    };
    let entry = get("entry").unwrap_or_default();
    let data = unhex(&get("hex").unwrap_or_default());
    if entry == "decrypt" {
        let alg: u8 = get("alg").and_then(|x| x.parse().ok()).unwrap_or(1);
        let salt = unhex(&get("salt").unwrap_or_default());
        let boots: i64 = get("boots").and_then(|x| x.parse().ok()).unwrap_or(0);
        let time: i64 = get("time").and_then(|x| x.parse().ok()).unwrap_or(0);
        return match guarded(|| decrypt_call(alg, &data, &salt, boots, time)) {
            Ok(b) => format!("returned (decoded={})", b),
            Err(m) => format!("PANIC: {}", m),
        };
    }
    match ENTRIES.iter().position(|e| *e == entry) {
        Some(e) => match guarded(|| call(e, &data)) {
            Ok(b) => format!("returned (decoded={})", b),
            Err(m) => format!("PANIC: {}", m),
        },
        None => "unknown entry".into(),
    }
}
