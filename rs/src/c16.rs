//! C16: decoding an element reads exactly its declared extent (metamorphic enumeration).

use crate::c01::{corpus, sigma30, sigma8};
use crate::refber as rb;
use crate::{guarded, hex, jstr, par_shards, unhex, Report};
use gufo_snmp::ber::{
    BerDecoder, BerHeader, SnmpBool, SnmpCounter32, SnmpCounter64, SnmpGauge32, SnmpInt, SnmpIpAddress, SnmpNull,
    SnmpObjectDescriptor, SnmpOctetString, SnmpOid, SnmpOpaque, SnmpOption, SnmpReal, SnmpRelativeOid, SnmpSequence,
    SnmpTimeTicks, SnmpUInteger32,
};
use gufo_snmp::snmp::getresponse::SnmpGetResponse;
use gufo_snmp::snmp::msg::{SnmpV1Message, SnmpV2cMessage, SnmpV3Message};
use gufo_snmp::snmp::value::SnmpValue;
use gufo_snmp::verif::{response_repr, value_repr, VerifValue};
use std::sync::atomic::Ordering;

pub const DECODERS: &[(&str, u8)] = &[
    ("SnmpValue", 0), ("SnmpInt", 0x02), ("SnmpBool", 0x01), ("SnmpReal", 0x09), ("SnmpOid", 0x06), ("SnmpIpAddress", 0x40),
    ("SnmpOption", 0xa2), ("BerHeader", 0), ("SnmpOctetString", 0x04), ("SnmpSequence", 0x30), ("SnmpNull", 0x05),
    ("SnmpRelativeOid", 0x0d), ("SnmpCounter32", 0x41), ("SnmpCounter64", 0x46), ("SnmpGauge32", 0x42), ("SnmpTimeTicks", 0x43),
    ("SnmpUInteger32", 0x47), ("SnmpOpaque", 0x44), ("SnmpObjectDescriptor", 0x07),
];

fn vv(v: &VerifValue) -> String {
    match v {
        VerifValue::Real(f) => format!("Real(bits {:016x})", f.to_bits()),
        other => format!("{:?}", other),
    }
}

/// Decode with decoder `d`; Some((consumed, printable value)) on success
fn dec(d: usize, x: &[u8]) -> Option<(usize, String)> {
    let n = x.len();
    match d {
        0 => SnmpValue::from_ber(x).ok().map(|(t, v)| (n - t.len(), vv(&value_repr(v)))),
        1 => SnmpInt::from_ber(x).ok().map(|(t, v)| (n - t.len(), i64::from(v).to_string())),
        2 => SnmpBool::from_ber(x).ok().map(|(t, v)| (n - t.len(), bool::from(v).to_string())),
        3 => SnmpReal::from_ber(x).ok().map(|(t, v)| (n - t.len(), format!("{:016x}", f64::from(v).to_bits()))),
        4 => SnmpOid::from_ber(x).ok().map(|(t, v)| (n - t.len(), hex(&Vec::<u8>::from(&v)))),
        5 => SnmpIpAddress::from_ber(x).ok().map(|(t, v)| (n - t.len(), String::from(&v))),
        6 => SnmpOption::from_ber(x).ok().map(|(t, v)| (n - t.len(), format!("{}:{}", v.tag, hex(v.value)))),
        7 => BerHeader::from_ber(x).ok().map(|(t, h)| (n - t.len(), format!("{:?}/{}/{}/{}", h.class, h.constructed, h.tag, h.length))),
        8 => SnmpOctetString::from_ber(x).ok().map(|(t, _)| (n - t.len(), String::new())),
        9 => SnmpSequence::from_ber(x).ok().map(|(t, _)| (n - t.len(), String::new())),
        10 => SnmpNull::from_ber(x).ok().map(|(t, _)| (n - t.len(), String::new())),
        11 => SnmpRelativeOid::from_ber(x).ok().map(|(t, _)| (n - t.len(), String::new())),
        12 => SnmpCounter32::from_ber(x).ok().map(|(t, _)| (n - t.len(), String::new())),
        13 => SnmpCounter64::from_ber(x).ok().map(|(t, _)| (n - t.len(), String::new())),
        14 => SnmpGauge32::from_ber(x).ok().map(|(t, _)| (n - t.len(), String::new())),
        15 => SnmpTimeTicks::from_ber(x).ok().map(|(t, _)| (n - t.len(), String::new())),
        16 => SnmpUInteger32::from_ber(x).ok().map(|(t, _)| (n - t.len(), String::new())),
        17 => SnmpOpaque::from_ber(x).ok().map(|(t, _)| (n - t.len(), String::new())),
        18 => SnmpObjectDescriptor::from_ber(x).ok().map(|(t, _)| (n - t.len(), String::new())),
        _ => None,
    }
}

pub fn suffixes(thorough: bool) -> Vec<Vec<u8>> {
    let s30 = sigma30();
    let s8 = sigma8();
    let full: Vec<u8> = (0..=255u8).collect();
    let a12: &[u8] = if thorough { &full } else { &s30 };
    let mut out = Vec::new();
    for &a in a12 {
        out.push(vec![a]);
    }
    for &a in a12 {
        for &b in a12 {
            out.push(vec![a, b]);
        }
    }
    let a3: &[u8] = if thorough { &s30 } else { &s8 };
    for &a in a3 {
        for &b in a3 {
            for &c in a3 {
                out.push(vec![a, b, c]);
            }
        }
    }
    out
}

/// Element corpus: every tag of interest x contents of length 0..3 over sigma8, plus boundary encodings
pub fn elements() -> Vec<Vec<u8>> {
    let s8 = sigma8();
    let tags: Vec<u8> = vec![0x01, 0x02, 0x04, 0x05, 0x06, 0x07, 0x09, 0x0d, 0x30, 0x40, 0x41, 0x42, 0x43, 0x44, 0x46, 0x47, 0x80, 0x81, 0x82, 0xa2];
    let mut out = Vec::new();
    for &t in &tags {
        out.push(rb::tlv(t, &[]));
        for &a in &s8 {
            out.push(rb::tlv(t, &[a]));
            for &b in &s8 {
                out.push(rb::tlv(t, &[a, b]));
                for &c in &s8 {
                    out.push(rb::tlv(t, &[a, b, c]));
                }
            }
        }
    }
    // boundary encodings
    out.push(rb::tlv(0x46, &[0, 0x80, 0, 0, 0, 0, 0, 0, 5]));
    out.push(rb::tlv(0x46, &[0, 0xff, 0xff, 0xff, 0xff, 0xff, 0xff, 0xff, 0xff]));
    out.push(rb::tlv(0x46, &[0x7f, 0xff, 0xff, 0xff, 0xff, 0xff, 0xff, 0xff]));
    out.push(rb::tlv(0x41, &[0, 0xff, 0xff, 0xff, 0xff]));
    out.push(rb::tlv(0x42, &[0, 0x80, 0, 0, 0]));
    out.push(rb::tlv(0x43, &[0, 0x80, 0, 0, 1]));
    out.push(rb::tlv(0x47, &[0, 0xff, 0, 0, 1]));
    out.push(rb::enc_int(i64::MIN));
    out.push(rb::enc_int(i64::MAX));
    out.push(rb::enc_int(-2));
    out.push(rb::tlv(0x02, &[0xff, 0xff, 0xff, 0xff, 0xff, 0xff, 0xff, 0xfe]));
    out.push(rb::tlv(0x40, &[10, 0, 0, 1]));
    out.push(rb::tlv(0x40, &[255, 255, 255, 255]));
    out.push(rb::enc_oid(&[1, 3, 6, 1, 4, 1, 4294967295, 16384, 127, 128]));
    out.push(rb::enc_oid(&[2, 39]));
    out.push(rb::tlv(0x09, &[0x03, b'1', b'.', b'5', b'E', b'2']));
    out.push(rb::tlv(0x09, &[0x02, b'4', b'.', b'5']));
    out.push(rb::tlv(0x09, &[0x01, b'4', b'2']));
    out.push(rb::tlv(0x09, &[0x80, 0x03, 0x05]));
    out.push(rb::tlv(0x09, &[0xc1, 0xff, 0xfe, 0x01, 0x00]));
    out.push(rb::tlv(0x09, &[0x40]));
    out.push(rb::tlv(0x09, &[0x43]));
    out.push(rb::enc_octets(&vec![0x61u8; 127]));
    out.push(rb::enc_octets(&vec![0x61u8; 128]));
    out.push(rb::enc_octets(&vec![0x61u8; 256]));
    out.push(rb::tlv(0x44, &vec![0x9fu8; 130]));
    out.push(rb::tlv(0x07, b"object descriptor"));
    out.push(rb::tlv(0x30, &rb::enc_int(5)));
    out.push(rb::tlv(0xa2, &rb::enc_int(5)));
    out.push(rb::tlv(0x0d, &[0x81, 0x00, 0x05]));
    out
}

fn check_suffixes(x: &[u8], sfx: &[Vec<u8>], rep: &mut Report) -> u64 {
    let mut n = 0u64;
    for d in 0..DECODERS.len() {
        let base = match guarded(|| dec(d, x)) {
            Ok(Some((used, val))) if used == x.len() => val,
            Ok(Some((used, val))) => {
                // x is exactly one TLV (its header announces all of x) and the decoder accepts it: it must have read all of it.
                // BerHeader (d == 7) reads a header only.
                if d != 7 {
                    n += 1;
                    rep.violation(
                        &format!("extent/{}/tag-{:02x}/len-{}: consumed fewer octets than the element declares", DECODERS[d].0, x[0], x.len() - 2),
                        format!("{}: element {} decodes (value {}) but only {} of its {} octets were consumed - the rest of its declared contents is handed on as remaining input", DECODERS[d].0, hex(&x[..x.len().min(24)]), val, used, x.len()),
                        format!("{{\"kind\": \"suffix\", \"decoder\": {}, \"x\": {}, \"s\": \"\"}}", d, jstr(&hex(x))),
                    );
                }
                continue;
            }
            Ok(None) => {
                // x is a complete TLV that this decoder refuses: what follows it must not make it acceptable
                // (only judged for the decoder whose tag matches, and for SnmpValue)
                if d != 0 && DECODERS[d].1 != x[0] {
                    continue;
                }
                // BerHeader has no tag of its own; SnmpOption refuses inputs shorter than 3 octets outright
                // (a size guard, not a reading of what follows), so an empty option is not judged here
                if d == 7 || (d == 6 && x.len() < 3) {
                    continue;
                }
                let mut buf = x.to_vec();
                for s in sfx.iter() {
                    buf.truncate(x.len());
                    buf.extend_from_slice(s);
                    n += 1;
                    if let Ok(Some((used, val))) = guarded(|| dec(d, &buf)) {
                        rep.violation(
                            &format!("suffix-completes-invalid-element/{}/tag-{:02x}/len-{}", DECODERS[d].0, x[0], x.len() - 2),
                            format!("{}: element {} is refused alone but accepted (consumed {}, value {}) when followed by {}", DECODERS[d].0, hex(&x[..x.len().min(24)]), used, val, hex(s)),
                            format!("{{\"kind\": \"suffix\", \"decoder\": {}, \"x\": {}, \"s\": {}}}", d, jstr(&hex(x)), jstr(&hex(s))),
                        );
                        break;
                    }
                }
                continue;
            }
            Err(p) => {
                rep.violation(&format!("panic/{}", DECODERS[d].0), format!("{}({}) panicked: {}", DECODERS[d].0, hex(x), p), format!("{{\"kind\": \"suffix\", \"decoder\": {}, \"x\": {}, \"s\": \"\"}}", d, jstr(&hex(x))));
                continue;
            }
        };
        rep.count("decodable_elements", 1);
        let mut buf = x.to_vec();
        for s in sfx.iter() {
            buf.truncate(x.len());
            buf.extend_from_slice(s);
            n += 1;
            let r = guarded(|| dec(d, &buf));
            let bad = match r {
                Ok(Some((used, val))) => {
                    if used != x.len() {
                        Some(format!("consumed {} octets instead of {} (remainder is not the appended suffix)", used, x.len()))
                    } else if val != base {
                        Some(format!("value changed from {} to {}", base, val))
                    } else {
                        None
                    }
                }
                Ok(None) => Some("rejected although the element alone decodes".to_string()),
                Err(p) => Some(format!("panic: {}", p)),
            };
            if let Some(b) = bad {
                rep.violation(
                    &format!("suffix/{}/tag-{:02x}/len-{}: {}", DECODERS[d].0, x[0], x.len() - 2, crate::first_clause(&b)),
                    format!("{}: element {} followed by {}: {}", DECODERS[d].0, hex(&x[..x.len().min(24)]), hex(s), b),
                    format!("{{\"kind\": \"suffix\", \"decoder\": {}, \"x\": {}, \"s\": {}}}", d, jstr(&hex(x)), jstr(&hex(s))),
                );
            }
        }
    }
    n
}

fn resp_values(d: &[u8]) -> Option<Vec<String>> {
    SnmpGetResponse::try_from(d).ok().map(|r| response_repr(r).vars.iter().map(|(o, v)| format!("{}={}", hex(o), vv(v))).collect())
}

/// An element embedded in a parent: value in a non-last varbind; junk after the value inside the varbind
fn check_embedded(x: &[u8], rep: &mut Report) -> u64 {
    let mut n = 0u64;
    let alone = match guarded(|| dec(0, x)) {
        Ok(Some((used, val))) if used == x.len() => val,
        _ => return 0,
    };
    let name1 = rb::enc_oid(&[1, 3, 6, 1, 2, 1, 1, 1, 0]);
    let name2 = rb::enc_oid(&[1, 3, 6, 1, 2, 1, 1, 2, 0]);
    let mk = |vbs: &[Vec<u8>]| -> Vec<u8> {
        let full = rb::pdu(0xa2, 1, 0, 0, vbs);
        let n = rb::parse_tlv(&full, 0, full.len(), 0).unwrap();
        full[n.cstart()..].to_vec()
    };
    let followers: Vec<Vec<u8>> = vec![rb::enc_int(7), rb::enc_octets(b"zz"), vec![5, 0], rb::tlv(0x46, &[1, 2, 3]), vec![0x82, 0]];
    for f in followers.iter() {
        let body = mk(&[rb::varbind(&name1, x), rb::varbind(&name2, f)]);
        n += 1;
        match guarded(|| resp_values(&body)) {
            Ok(Some(vals)) => {
                let want = format!("{}={}", hex(&rb::oid_content(&[1, 3, 6, 1, 2, 1, 1, 1, 0])), alone);
                if vals.len() != 2 || vals[0] != want {
                    rep.violation(
                        &format!("embedded/non-last-varbind/tag-{:02x}", x[0]),
                        format!("value {} in the first of two varbinds decodes as {:?}, alone it is {}", hex(&x[..x.len().min(24)]), vals, alone),
                        format!("{{\"kind\": \"embedded\", \"x\": {}, \"f\": {}}}", jstr(&hex(x)), jstr(&hex(f))),
                    );
                }
            }
            Ok(None) => rep.violation(&format!("embedded/rejected/tag-{:02x}", x[0]), format!("response with value {} in a non-last varbind rejected", hex(&x[..x.len().min(24)])), format!("{{\"kind\": \"embedded\", \"x\": {}, \"f\": {}}}", jstr(&hex(x)), jstr(&hex(f)))),
            Err(p) => rep.violation(&format!("embedded/panic/tag-{:02x}", x[0]), format!("panic: {}", p), format!("{{\"kind\": \"embedded\", \"x\": {}, \"f\": {}}}", jstr(&hex(x)), jstr(&hex(f)))),
        }
        // junk after the value inside the varbind: same value or an error, never another value
        let mut inner = name1.clone();
        inner.extend_from_slice(x);
        inner.extend_from_slice(f);
        let body = mk(&[rb::tlv(0x30, &inner)]);
        n += 1;
        if let Ok(Some(vals)) = guarded(|| resp_values(&body)) {
            let want = format!("{}={}", hex(&rb::oid_content(&[1, 3, 6, 1, 2, 1, 1, 1, 0])), alone);
            if vals.len() != 1 || vals[0] != want {
                rep.violation(
                    &format!("embedded/junk-in-varbind/tag-{:02x}", x[0]),
                    format!("value {} followed by {} inside its varbind decodes as {:?}, alone it is {}", hex(&x[..x.len().min(24)]), hex(f), vals, alone),
                    format!("{{\"kind\": \"embedded\", \"x\": {}, \"f\": {}}}", jstr(&hex(x)), jstr(&hex(f))),
                );
            }
        }
    }
    n
}

fn msg_ok(entry: usize, d: &[u8]) -> bool {
    match entry {
        26 => SnmpV1Message::try_from(d).is_ok(),
        27 => SnmpV2cMessage::try_from(d).is_ok(),
        28 => SnmpV3Message::try_from(d).is_ok(),
        _ => crate::c01::call(entry, d),
    }
}

/// Inner lengths raised beyond the enclosing element; bytes after the top-level message
fn check_overlong(thorough: bool, rep: &mut Report) -> u64 {
    let mut n = 0u64;
    let sfx = suffixes(false);
    for sk in corpus().iter().filter(|s| !s.big || thorough) {
        let d = &sk.data;
        if !guarded(|| msg_ok(sk.entry, d)).unwrap_or(false) {
            continue;
        }
        let nodes = rb::all_nodes(d);
        // the body of a Report PDU is carried opaquely (never decoded): nothing inside it is "read"
        let opaque = nodes.iter().position(|n| n.tag == 0xa8);
        for (i, node) in nodes.iter().enumerate() {
            if let Some(o) = opaque {
                if i > o && node.depth > nodes[o].depth {
                    continue;
                }
            }
            // enclosing element = nearest earlier node of smaller depth that contains this one
            let parent_end = nodes[..i].iter().rev().find(|p| p.depth < node.depth && p.end() >= node.end()).map(|p| p.end()).unwrap_or(d.len());
            let room = parent_end - node.cstart();
            let mut variants: Vec<Vec<u8>> = Vec::new();
            for extra in [1usize, 2, 127] {
                variants.push(rb::enc_len(room + extra));
            }
            let l = node.len;
            variants.push(vec![0x83, 1, (l >> 8) as u8, l as u8]);
            variants.push(vec![0x84, 1, 0, (l >> 8) as u8, l as u8]);
            variants.push(vec![0x85, 1, 0, 0, (l >> 8) as u8, l as u8]);
            variants.push(vec![0x88, 1, 0, 0, 0, 0, 0, (l >> 8) as u8, l as u8]);
            variants.push(vec![0x84, 0xff, 0xff, 0xff, 0xff]);
            // a constructed element declared shorter than its children: the last child then runs past it
            let mut shortened: Vec<Vec<u8>> = Vec::new();
            let kids: Vec<&rb::Node> = nodes[i + 1..].iter().take_while(|k| k.depth > node.depth).filter(|k| k.depth == node.depth + 1).collect();
            let is_opaque = opaque.map(|o| i == o).unwrap_or(false);
            if let (Some(last), false) = (kids.last(), is_opaque) {
                for cut in [1usize, 2, last.hlen + last.len, last.len.max(1)] {
                    if cut <= node.len && cut > 0 && node.len - cut < 0x80 && node.hlen == 2 {
                        shortened.push(vec![(node.len - cut) as u8]);
                    }
                }
            }
            for le in shortened.iter() {
                let mut w = d[..node.start + 1].to_vec();
                w.extend_from_slice(le);
                w.extend_from_slice(&d[node.cstart()..]);
                n += 1;
                match guarded(|| msg_ok(sk.entry, &w)) {
                    Ok(false) => {}
                    Ok(true) => rep.violation(
                        &format!("child-runs-past-shortened-parent-accepted/depth-{}/tag-{:02x}", node.depth, node.tag),
                        format!("{}: element at offset {} (tag {:02x}, {} octets) re-declared as {} octets so that its last child runs past it, but the message was accepted", sk.name, node.start, node.tag, node.len, le[0]),
                        format!("{{\"kind\": \"msg\", \"entry\": {}, \"hex\": {}}}", sk.entry, jstr(&hex(&w))),
                    ),
                    Err(p) => rep.violation(&format!("overlong/panic/{}", crate::panic_class(&p)), format!("panic: {}", p), format!("{{\"kind\": \"msg\", \"entry\": {}, \"hex\": {}}}", sk.entry, jstr(&hex(&w)))),
                }
            }
            // a further element *header* at the end of a constructed node, declaring contents that lie outside the node
            // (all enclosing lengths adjusted so that only this last header overruns)
            // Only SEQUENCE OF lists are judged (the varbind list of a PDU): there the decoder has to walk every element;
            // a fixed-arity SEQUENCE may ignore what follows its last field without ever reading it.
            let parent_tag = nodes[..i].iter().rev().find(|p| p.depth + 1 == node.depth && p.end() >= node.end()).map(|p| p.tag);
            let is_varbind_list = node.tag == 0x30 && matches!(parent_tag, Some(0xa0..=0xa7));
            if is_varbind_list && !is_opaque {
                let chain: Vec<&rb::Node> = nodes[..=i].iter().filter(|p| p.start <= node.start && p.end() >= node.end()).collect();
                for junk in [&[0x30u8, 0x7f][..], &[0x30][..], &[0x04, 0x05, 0xaa][..], &[0x02, 0x81][..], &[0x06, 0x03, 0x2b][..]] {
                    if chain.iter().any(|p| p.hlen != 2 || p.len + junk.len() >= 0x80) {
                        continue;
                    }
                    let mut w = d[..node.end()].to_vec();
                    w.extend_from_slice(junk);
                    w.extend_from_slice(&d[node.end()..]);
                    for p in chain.iter() {
                        w[p.start + 1] = (p.len + junk.len()) as u8;
                    }
                    n += 1;
                    match guarded(|| msg_ok(sk.entry, &w)) {
                        Ok(false) => {}
                        Ok(true) => rep.violation(
                            &format!("dangling-element-header-accepted/depth-{}/tag-{:02x}", node.depth, node.tag),
                            format!("{}: element at offset {} (tag {:02x}) given a last child header {} whose declared contents lie outside it, but the message was accepted", sk.name, node.start, node.tag, hex(junk)),
                            format!("{{\"kind\": \"msg\", \"entry\": {}, \"hex\": {}}}", sk.entry, jstr(&hex(&w))),
                        ),
                        Err(p) => rep.violation(&format!("overlong/panic/{}", crate::panic_class(&p)), format!("panic: {}", p), format!("{{\"kind\": \"msg\", \"entry\": {}, \"hex\": {}}}", sk.entry, jstr(&hex(&w)))),
                    }
                }
            }
            for le in variants.iter() {
                let mut w = d[..node.start + 1].to_vec();
                w.extend_from_slice(le);
                w.extend_from_slice(&d[node.cstart()..]);
                n += 1;
                match guarded(|| msg_ok(sk.entry, &w)) {
                    Ok(false) => {}
                    Ok(true) => rep.violation(
                        &format!("overlong-inner-length-accepted/depth-{}/tag-{:02x}/lenform-{:02x}", node.depth, node.tag, le[0]),
                        format!("{}: element at offset {} (tag {:02x}) re-declared with length octets {} runs past its enclosing element but the message was accepted", sk.name, node.start, node.tag, hex(le)),
                        format!("{{\"kind\": \"msg\", \"entry\": {}, \"hex\": {}}}", sk.entry, jstr(&hex(&w))),
                    ),
                    Err(p) => rep.violation(&format!("overlong/panic/{}", crate::panic_class(&p)), format!("panic: {}", p), format!("{{\"kind\": \"msg\", \"entry\": {}, \"hex\": {}}}", sk.entry, jstr(&hex(&w)))),
                }
            }
        }
        if sk.entry == 28 && !sk.big {
            // msgSecurityParameters is a message layer of its own (an OCTET STRING holding the serialized USM SEQUENCE):
            // bytes after that SEQUENCE inside the wrapper (all enclosing lengths adjusted) are bytes after a message
            if let Some(wr) = nodes.iter().filter(|x| x.depth == 1 && x.tag == 0x04).next() {
                if wr.hlen == 2 && nodes[0].hlen == 2 {
                    for s in sfx.iter().filter(|s| s.len() <= 2) {
                        if wr.len + s.len() >= 0x80 || nodes[0].len + s.len() >= 0x80 {
                            continue;
                        }
                        let mut w = d[..wr.end()].to_vec();
                        w.extend_from_slice(s);
                        w.extend_from_slice(&d[wr.end()..]);
                        w[wr.start + 1] = (wr.len + s.len()) as u8;
                        w[nodes[0].start + 1] = (nodes[0].len + s.len()) as u8;
                        n += 1;
                        match guarded(|| msg_ok(sk.entry, &w)) {
                            Ok(false) => {}
                            Ok(true) => rep.violation(
                                "trailing-bytes-accepted/inside-msgSecurityParameters",
                                format!("{}: {} after the USM SEQUENCE inside msgSecurityParameters was accepted", sk.name, hex(s)),
                                format!("{{\"kind\": \"msg\", \"entry\": {}, \"hex\": {}}}", sk.entry, jstr(&hex(&w))),
                            ),
                            Err(p) => rep.violation(&format!("overlong/panic/{}", crate::panic_class(&p)), format!("panic: {}", p), format!("{{\"kind\": \"msg\", \"entry\": {}, \"hex\": {}}}", sk.entry, jstr(&hex(&w)))),
                        }
                    }
                }
            }
        }
        if (sk.entry >= 26 || sk.entry == 23) && !sk.big {
            let mut w = d.clone();
            for s in sfx.iter().filter(|s| s.len() <= 2) {
                w.truncate(d.len());
                w.extend_from_slice(s);
                n += 1;
                if guarded(|| msg_ok(sk.entry, &w)).unwrap_or(false) {
                    rep.violation(
                        &format!("trailing-bytes-accepted/{}", crate::c01::ENTRIES[sk.entry]),
                        format!("{}: message followed by {} was accepted", sk.name, hex(s)),
                        format!("{{\"kind\": \"msg\", \"entry\": {}, \"hex\": {}}}", sk.entry, jstr(&hex(&w))),
                    );
                }
            }
        }
    }
    n
}

fn v3_response(d: &[u8]) -> Option<String> {
    use gufo_snmp::snmp::msg::v3::MsgData;
    use gufo_snmp::snmp::pdu::SnmpPdu;
    let m = SnmpV3Message::try_from(d).ok()?;
    match m.data {
        MsgData::Plaintext(s) => match s.pdu {
            SnmpPdu::GetResponse(r) => Some(format!("ctx-engine {} response {:?}", hex(s.engine_id), response_repr(r).vars.iter().map(|(o, v)| format!("{}={}", hex(o), vv(v))).collect::<Vec<_>>())),
            _ => Some("other pdu".into()),
        },
        MsgData::Encrypted(x) => Some(format!("encrypted {}", x.len())),
    }
}

/// msgData of an encrypted message is exactly the declared contents of its OCTET STRING: octets that follow it inside the
/// message envelope (declared length shortened, all bytes kept) never become part of the ciphertext.
fn check_msgdata_extent(rep: &mut Report) -> u64 {
    use gufo_snmp::snmp::msg::v3::MsgData;
    let mut n = 0u64;
    let usm = rb::usm(b"\x80\x00\x1f\x88\x04eng", 7, 300, b"u", &[0u8; 12], &[1, 2, 3, 4, 5, 6, 7, 8]);
    for clen in [8usize, 16, 24, 48, 100] {
        let ct: Vec<u8> = (0..clen).map(|i| (i * 5 + 1) as u8).collect();
        let d = rb::v3_msg(1, 65507, 0x03, &usm, &rb::enc_octets(&ct));
        let nodes = rb::all_nodes(&d);
        let md = match nodes.iter().filter(|x| x.depth == 1 && x.tag == 0x04).last() {
            Some(x) if x.hlen == 2 && x.end() == d.len() => x.clone(),
            _ => continue,
        };
        for cut in 1..=clen.min(9) {
            let mut w = d.clone();
            w[md.start + 1] = (md.len - cut) as u8;
            n += 1;
            let r = guarded(|| match SnmpV3Message::try_from(w.as_slice()) {
                Ok(m) => match m.data {
                    MsgData::Encrypted(x) => Some(x.to_vec()),
                    _ => Some(vec![]),
                },
                Err(_) => None,
            });
            match r {
                Ok(None) => {}
                Ok(Some(x)) if x == ct[..clen - cut] => {}
                Ok(Some(x)) => rep.violation(
                    "msgdata-read-past-declared-length",
                    format!("msgData declared {} octets with {} more following it inside the message: {} octets were taken as ciphertext", clen - cut, cut, x.len()),
                    format!("{{\"kind\": \"msg\", \"entry\": 28, \"hex\": {}}}", jstr(&hex(&w))),
                ),
                Err(p) => rep.violation(&format!("msgdata/panic/{}", crate::panic_class(&p)), format!("panic: {}", p), format!("{{\"kind\": \"msg\", \"entry\": 28, \"hex\": {}}}", jstr(&hex(&w)))),
            }
        }
    }
    n
}

/// contextName is an element like any other: whatever its contents (text, zeros, a complete PDU), the PDU that
/// follows it is decoded from the octets *after* it - the result is that of the same message with an empty name.
fn check_context_name(rep: &mut Report) -> u64 {
    let mut n = 0u64;
    let eng = b"\x80\x00\x1f\x88\x04eng";
    let usm = rb::usm(eng, 7, 300, b"user1", b"", b"");
    let vb = |v: i64| rb::varbind(&rb::enc_oid(&[1, 3, 6, 1, 2, 1, 1, 5, 0]), &rb::enc_int(v));
    let pdu = rb::pdu(0xa2, 0x1234, 0, 0, &[vb(42)]);
    let decoy = rb::pdu(0xa2, 0x1234, 0, 0, &[vb(666)]);
    let base = rb::v3_msg(0x1234567, 65507, 0x00, &usm, &rb::scoped(eng, b"", &pdu));
    let want = match guarded(|| v3_response(&base)) {
        Ok(Some(w)) => w,
        _ => return 0,
    };
    let mut names: Vec<Vec<u8>> = vec![b"c".to_vec(), b"ctx".to_vec(), vec![0u8; 5], vec![b'a'; 127], vec![b'a'; 128], vec![b'a'; 300], decoy.clone(), rb::enc_octets(b"x"), vec![0x30, 0x00], vec![0xa2, 0x7f]];
    let mut padded = decoy.clone();
    padded.extend_from_slice(&[0u8; 3]);
    names.push(padded);
    for name in names.iter() {
        let m = rb::v3_msg(0x1234567, 65507, 0x00, &usm, &rb::scoped(eng, name, &pdu));
        n += 1;
        match guarded(|| v3_response(&m)) {
            Ok(Some(got)) if got == want => {}
            Ok(got) => rep.violation(
                "context-name-contents-read-as-pdu",
                format!("scoped PDU with a contextName of {} octets ({}…): decoded as {:?}, the same message with an empty contextName gives {}", name.len(), hex(&name[..name.len().min(12)]), got, want),
                format!("{{\"kind\": \"msg\", \"entry\": 28, \"hex\": {}}}", jstr(&hex(&m))),
            ),
            Err(p) => rep.violation(&format!("context-name/panic/{}", crate::panic_class(&p)), format!("panic: {}", p), format!("{{\"kind\": \"msg\", \"entry\": 28, \"hex\": {}}}", jstr(&hex(&m)))),
        }
    }
    n
}

/// The decrypted scoped PDU is a message layer too: an element that declares more octets than the ciphertext
/// delivered must be rejected, whatever the cipher's private buffer still holds from earlier traffic.
fn check_decrypt_extent(rep: &mut Report) -> u64 {
    use crate::c01::{aes_cfb_encrypt, des_cbc_encrypt, KEY};
    use gufo_snmp::snmp::get::SnmpGet;
    use gufo_snmp::snmp::msg::v3::{ScopedPdu, UsmParameters};
    use gufo_snmp::snmp::pdu::SnmpPdu;
    use gufo_snmp::verif::{PrivKey, SnmpPriv};
    let mut n = 0u64;
    let engine = b"\x80\x00\x1f\x88\x04eng";
    let salt = [9u8, 8, 7, 6, 5, 4, 3, 2];
    for alg in [1u8, 2] {
        for history in 0..3usize {
            for vlen in 0..40usize {
                for extra in 1..=16usize {
                    // a response whose value (last element) declares `extra` octets more than are present
                    let value: Vec<u8> = (0..vlen).map(|i| (i * 13 + 7) as u8).collect();
                    let good = rb::scoped(engine, b"", &rb::pdu(0xa2, 77, 0, 0, &[rb::varbind(&rb::enc_oid(&[1, 3, 6, 1, 2, 1, 1, 5, 0]), &rb::enc_octets(&value))]));
                    // re-declare every enclosing length and the value's own length `extra` longer, keep the bytes
                    let nodes = rb::all_nodes(&good);
                    let mut bad = good.clone();
                    let mut okay = true;
                    for nd in nodes.iter() {
                        if nd.end() == good.len() {
                            let l = nd.len + extra;
                            if nd.hlen != 2 || l >= 0x80 {
                                okay = false;
                                break;
                            }
                            bad[nd.start + 1] = l as u8;
                        }
                    }
                    if !okay {
                        continue;
                    }
                    let mut k = match PrivKey::new(alg) {
                        Ok(k) => k,
                        Err(_) => continue,
                    };
                    if k.as_localized(&KEY).is_err() {
                        continue;
                    }
                    // history: nothing / a long request encrypted before / a long request then a short one
                    let big: Vec<gufo_snmp::ber::SnmpOid> = (0..10).filter_map(|i| gufo_snmp::ber::SnmpOid::try_from(format!("1.3.6.1.4.1.{}.255.254.253.252", 200 + i).as_str()).ok()).collect();
                    if history >= 1 {
                        let sp = ScopedPdu { engine_id: engine, pdu: SnmpPdu::GetRequest(SnmpGet { request_id: 0x7f7f7f7f, vars: big.clone() }) };
                        let _ = guarded(|| k.encrypt(&sp, 1, 2).map(|x| x.0.len()));
                    }
                    if history == 2 {
                        let sp = ScopedPdu { engine_id: engine, pdu: SnmpPdu::GetRequest(SnmpGet { request_id: 5, vars: vec![] }) };
                        let _ = guarded(|| k.encrypt(&sp, 1, 2).map(|x| x.0.len()));
                    }
                    let ct = if alg == 1 {
                        let iv: Vec<u8> = KEY[8..16].iter().zip(salt.iter()).map(|(a, b)| a ^ b).collect();
                        des_cbc_encrypt(&KEY[..8], &iv, &bad)
                    } else {
                        let mut iv = vec![0, 0, 0, 1, 0, 0, 0, 2];
                        iv.extend_from_slice(&salt);
                        aes_cfb_encrypt(&KEY[..16], &iv, &bad)
                    };
                    // DES needs whole blocks (zero padding is part of the plaintext then): only judge when the declared
                    // extent still runs past the padded plaintext
                    if alg == 1 && bad.len() + extra <= ct.len() {
                        continue;
                    }
                    let usm = UsmParameters { engine_id: engine, engine_boots: 1, engine_time: 2, user_name: b"u", auth_params: &[], privacy_params: &salt };
                    n += 1;
                    match guarded(|| k.decrypt(&ct, &usm).is_ok()) {
                        Ok(false) => {}
                        Ok(true) => rep.violation(
                            &format!("decrypt-overlong-accepted/{}", if alg == 1 { "des" } else { "aes" }),
                            format!("{}: scoped PDU of {} octets whose elements declare {} octets more than were received was accepted after history {} (read from the cipher's private buffer)", if alg == 1 { "DES" } else { "AES" }, bad.len(), extra, history),
                            format!("{{\"kind\": \"decrypt\", \"alg\": {}, \"vlen\": {}, \"extra\": {}, \"history\": {}}}", alg, vlen, extra, history),
                        ),
                        Err(p) => rep.violation(&format!("decrypt-overlong/panic/{}", crate::panic_class(&p)), format!("panic: {}", p), "{\"kind\": \"decrypt\"}".to_string()),
                    }
                }
            }
        }
    }
    n
}

pub fn run(thorough: bool) -> Report {
    let els = elements();
    let sfx = suffixes(thorough);
    let chunk = 64usize;
    let nshards = els.len().div_ceil(chunk);
    let mut rep = par_shards(nshards, |i, rep, beat, label| {
        *label.lock().unwrap() = format!("element shard {}", i);
        let mut n = 0u64;
        for x in els[i * chunk..((i + 1) * chunk).min(els.len())].iter() {
            n += check_suffixes(x, &sfx, rep);
            n += check_embedded(x, rep);
            beat.fetch_add(1, Ordering::Relaxed);
        }
        rep.count("evaluations", n);
        label.lock().unwrap().clear();
    });
    let r2 = par_shards(1, |_, rep, beat, label| {
        *label.lock().unwrap() = "over-long inner lengths".into();
        let mut n = check_overlong(thorough, rep);
        n += check_context_name(rep);
        n += check_msgdata_extent(rep);
        beat.fetch_add(1, Ordering::Relaxed);
        let nd = check_decrypt_extent(rep);
        rep.count("decrypt_extent_cases", nd);
        n += nd;
        rep.count("evaluations", n);
        rep.count("overlong_cases", n);
        label.lock().unwrap().clear();
    });
    rep.merge(r2);
    rep.count("elements", els.len() as u64);
    rep.count("suffixes", sfx.len() as u64);
    rep.sample(format!("{{\"element\": {}, \"suffix\": {}}}", jstr(&hex(&els[els.len() - 30])), jstr(&hex(&sfx[40]))));
    rep
}

pub fn replay(_kind: &str, json: &str) -> String {
    let get = |k: &str| -> Option<String> {
        let pat = format!("\"{}\": ", k);
        let i = json.find(&pat)? + pat.len();
        let rest = &json[i..];
        if let Some(stripped) = rest.strip_prefix('"') {
            Some(stripped[..stripped.find('"')?].to_string())
        } else {
            let end = rest.find([',', '}']).unwrap_or(rest.len());
            Some(rest[..end].trim().to_string())
        }
    };
    let mut rep = Report::default();
    if json.contains("\"kind\": \"suffix\"") {
        let x = unhex(&get("x").unwrap_or_default());
        let s = unhex(&get("s").unwrap_or_default());
        check_suffixes(&x, &[s], &mut rep);
    } else if json.contains("\"kind\": \"embedded\"") {
        let x = unhex(&get("x").unwrap_or_default());
        check_embedded(&x, &mut rep);
    } else {
        let e: usize = get("entry").and_then(|x| x.parse().ok()).unwrap_or(27);
        let d = unhex(&get("hex").unwrap_or_default());
        return match guarded(|| msg_ok(e, &d)) {
            Ok(b) => format!("accepted={}", b),
            Err(p) => format!("PANIC {}", p),
        };
    }
    if rep.violations.is_empty() {
        "holds".into()
    } else {
        rep.violations.values().map(|v| v.desc.clone()).collect::<Vec<_>>().join("; ")
    }
}
