//! Reference BER encoder / strict decoder written from X.690 only.
//! Shares no code with the crate under test.

#[derive(Debug, Clone)]
pub struct Node {
    pub tag: u8,
    pub start: usize,  // offset of the identifier octet
    pub hlen: usize,   // identifier + length octets
    pub len: usize,    // content length
    pub depth: usize,
}

impl Node {
    pub fn cstart(&self) -> usize {
        self.start + self.hlen
    }
    pub fn end(&self) -> usize {
        self.start + self.hlen + self.len
    }
}

pub fn enc_len(n: usize) -> Vec<u8> {
    if n < 128 {
        return vec![n as u8];
    }
    let mut b = Vec::new();
    let mut v = n;
    while v > 0 {
        b.push((v & 0xff) as u8);
        v >>= 8;
    }
    b.reverse();
    let mut out = vec![0x80 | b.len() as u8];
    out.extend(b);
    out
}

pub fn tlv(tag: u8, content: &[u8]) -> Vec<u8> {
    let mut out = vec![tag];
    out.extend(enc_len(content.len()));
    out.extend_from_slice(content);
    out
}

/// Minimal two's complement contents of an integer
pub fn twos(v: i64) -> Vec<u8> {
    let b = v.to_be_bytes();
    let mut i = 0;
    while i < 7 {
        let cur = b[i];
        let next_msb = b[i + 1] & 0x80;
        if (cur == 0 && next_msb == 0) || (cur == 0xff && next_msb != 0) {
            i += 1;
        } else {
            break;
        }
    }
    b[i..].to_vec()
}

pub fn enc_int(v: i64) -> Vec<u8> {
    tlv(0x02, &twos(v))
}

/// Unsigned value as INTEGER-style contents (leading zero if the top bit is set)
pub fn unsigned_content(v: u64) -> Vec<u8> {
    let b = v.to_be_bytes();
    let mut i = 0;
    while i < 7 && b[i] == 0 {
        i += 1;
    }
    let mut out = Vec::new();
    if b[i] & 0x80 != 0 {
        out.push(0);
    }
    out.extend_from_slice(&b[i..]);
    out
}

pub fn arc_bytes(a: u64) -> Vec<u8> {
    let mut out = vec![(a & 0x7f) as u8];
    let mut v = a >> 7;
    while v > 0 {
        out.push(((v & 0x7f) as u8) | 0x80);
        v >>= 7;
    }
    out.reverse();
    out
}

pub fn oid_content(arcs: &[u64]) -> Vec<u8> {
    let mut out = arc_bytes(arcs[0] * 40 + arcs[1]);
    for a in &arcs[2..] {
        out.extend(arc_bytes(*a));
    }
    out
}

pub fn enc_oid(arcs: &[u64]) -> Vec<u8> {
    tlv(0x06, &oid_content(arcs))
}

pub fn enc_octets(b: &[u8]) -> Vec<u8> {
    tlv(0x04, b)
}

pub fn varbind(name_tlv: &[u8], value_tlv: &[u8]) -> Vec<u8> {
    let mut c = name_tlv.to_vec();
    c.extend_from_slice(value_tlv);
    tlv(0x30, &c)
}

pub fn pdu(tag: u8, request_id: i64, a: i64, b: i64, varbinds: &[Vec<u8>]) -> Vec<u8> {
    let mut vbs = Vec::new();
    for v in varbinds {
        vbs.extend_from_slice(v);
    }
    let mut c = enc_int(request_id);
    c.extend(enc_int(a));
    c.extend(enc_int(b));
    c.extend(tlv(0x30, &vbs));
    tlv(tag, &c)
}

pub fn community_msg(version: i64, community: &[u8], pdu: &[u8]) -> Vec<u8> {
    let mut c = enc_int(version);
    c.extend(enc_octets(community));
    c.extend_from_slice(pdu);
    tlv(0x30, &c)
}

pub fn scoped(ctx_engine: &[u8], ctx_name: &[u8], pdu: &[u8]) -> Vec<u8> {
    let mut c = enc_octets(ctx_engine);
    c.extend(enc_octets(ctx_name));
    c.extend_from_slice(pdu);
    tlv(0x30, &c)
}

pub fn usm(engine: &[u8], boots: i64, time: i64, user: &[u8], auth: &[u8], privp: &[u8]) -> Vec<u8> {
    let mut c = enc_octets(engine);
    c.extend(enc_int(boots));
    c.extend(enc_int(time));
    c.extend(enc_octets(user));
    c.extend(enc_octets(auth));
    c.extend(enc_octets(privp));
    tlv(0x30, &c)
}

pub fn v3_msg(msg_id: i64, max_size: i64, flags: u8, usm: &[u8], data: &[u8]) -> Vec<u8> {
    let mut h = enc_int(msg_id);
    h.extend(enc_int(max_size));
    h.extend(enc_octets(&[flags]));
    h.extend(enc_int(3));
    let mut c = enc_int(3);
    c.extend(tlv(0x30, &h));
    c.extend(enc_octets(usm));
    c.extend_from_slice(data);
    tlv(0x30, &c)
}

/// Strict TLV parse at `off` within data[..end]; low tag numbers, definite minimal lengths.
pub fn parse_tlv(data: &[u8], off: usize, end: usize, depth: usize) -> Result<Node, &'static str> {
    if off + 2 > end {
        return Err("truncated header");
    }
    let tag = data[off];
    if tag & 0x1f == 0x1f {
        return Err("high tag number");
    }
    let l0 = data[off + 1];
    let mut p = off + 2;
    let len;
    if l0 < 0x80 {
        len = l0 as usize;
    } else if l0 == 0x80 {
        return Err("indefinite length");
    } else {
        let k = (l0 & 0x7f) as usize;
        if k > 4 || p + k > end {
            return Err("truncated length");
        }
        let mut v = 0usize;
        for i in 0..k {
            v = (v << 8) | data[p + i] as usize;
        }
        if v < 128 || data[p] == 0 {
            return Err("non-minimal length");
        }
        len = v;
        p += k;
    }
    if p + len > end {
        return Err("content overruns");
    }
    Ok(Node { tag, start: off, hlen: p - off, len, depth })
}

/// All TLV nodes of a well-formed message, pre-order. OCTET STRINGs that wrap a SEQUENCE
/// (USM security parameters) are descended into as well.
pub fn all_nodes(data: &[u8]) -> Vec<Node> {
    let mut out = Vec::new();
    fn walk(data: &[u8], off: usize, end: usize, depth: usize, out: &mut Vec<Node>) {
        let mut p = off;
        while p < end {
            match parse_tlv(data, p, end, depth) {
                Ok(n) => {
                    let (cs, ce) = (n.cstart(), n.end());
                    let constructed = n.tag & 0x20 != 0;
                    let wrapped = n.tag == 0x04 && n.len >= 2 && data[cs] == 0x30;
                    p = ce;
                    out.push(n);
                    if constructed || wrapped {
                        // only descend when the content parses completely
                        let mut q = cs;
                        let mut ok = true;
                        while q < ce {
                            match parse_tlv(data, q, ce, depth + 1) {
                                Ok(m) => q = m.end(),
                                Err(_) => {
                                    ok = false;
                                    break;
                                }
                            }
                        }
                        if ok {
                            walk(data, cs, ce, depth + 1, out);
                        }
                    }
                }
                Err(_) => return,
            }
        }
    }
    walk(data, 0, data.len(), 0, &mut out);
    out
}

/// Strict check that `data` is exactly one well-formed TLV tree (used by C15)
pub fn strict_tree_ok(data: &[u8]) -> Result<(), &'static str> {
    fn walk(data: &[u8], off: usize, end: usize) -> Result<(), &'static str> {
        let mut p = off;
        while p < end {
            let n = parse_tlv(data, p, end, 0)?;
            if n.tag & 0x20 != 0 {
                walk(data, n.cstart(), n.end())?;
            }
            if n.tag == 0x02 {
                let c = &data[n.cstart()..n.end()];
                if c.is_empty() {
                    return Err("empty INTEGER");
                }
                if c.len() > 1 && ((c[0] == 0 && c[1] & 0x80 == 0) || (c[0] == 0xff && c[1] & 0x80 != 0)) {
                    return Err("non-minimal INTEGER");
                }
            }
            p = n.end();
        }
        Ok(())
    }
    let n = parse_tlv(data, 0, data.len(), 0)?;
    if n.end() != data.len() {
        return Err("trailing bytes");
    }
    walk(data, 0, data.len())
}
