use gufo_snmp::ber::{BerDecoder, SnmpInt};
fn main() {
    let r = SnmpInt::from_ber(&[2, 8, 0xff, 0xff, 0xff, 0xff, 0xff, 0xff, 0xff, 0xfe]);
    match r { Ok((_, v)) => println!("{}", i64::from(v)), Err(_) => println!("err") }
    gufo_snmp::verif::rng_force(&[1]);
}
