//! RSX - Rust explorer for gufo_snmp: bounded-exhaustive enumeration at the crate's Rust API.
//! usage: rsx <c01|c15|c16|c17> <quick|thorough> <out.json> | rsx replay <entry> <hex>

mod c01;
mod c15;
mod c16;
mod c17;
mod c17_core;
mod refber;

use std::cell::RefCell;
use std::collections::BTreeMap;
use std::panic::{self, AssertUnwindSafe};
use std::sync::atomic::{AtomicU64, AtomicUsize, Ordering};
use std::sync::{Arc, Mutex};
use std::time::{Duration, Instant};

pub use gufo_snmp::buf::Buffer as BufferUnderTest;

pub fn last_panic() -> String {
    LAST_PANIC.with(|p| p.borrow().clone())
}

thread_local! {
    static LAST_PANIC: RefCell<String> = const { RefCell::new(String::new()) };
}

pub struct Violation {
    pub sig: String,
    pub desc: String,
    pub case: String, // JSON object
    pub count: u64,
}

#[derive(Default)]
pub struct Report {
    pub counters: BTreeMap<String, u64>,
    pub outcomes: BTreeMap<String, u64>,
    pub samples: Vec<String>,
    pub violations: BTreeMap<String, Violation>,
    pub caps: Vec<String>,
    pub notes: Vec<String>,
}

impl Report {
    pub fn count(&mut self, k: &str, n: u64) {
        *self.counters.entry(k.to_string()).or_insert(0) += n;
    }
    pub fn outcome(&mut self, k: &str, n: u64) {
        *self.outcomes.entry(k.to_string()).or_insert(0) += n;
    }
    pub fn sample(&mut self, s: String) {
        if self.samples.len() < 4 {
            self.samples.push(s);
        }
    }
    pub fn violation(&mut self, sig: &str, desc: String, case: String) {
        if let Some(v) = self.violations.get_mut(sig) {
            v.count += 1;
            return;
        }
        self.violations.insert(sig.to_string(), Violation { sig: sig.to_string(), desc, case, count: 1 });
    }
    pub fn nviol(&self) -> u64 {
        self.violations.values().map(|v| v.count).sum()
    }
    pub fn merge(&mut self, o: Report) {
        for (k, v) in o.counters {
            *self.counters.entry(k).or_insert(0) += v;
        }
        for (k, v) in o.outcomes {
            *self.outcomes.entry(k).or_insert(0) += v;
        }
        for s in o.samples {
            self.sample(s);
        }
        for (k, v) in o.violations {
            if let Some(e) = self.violations.get_mut(&k) {
                e.count += v.count;
            } else {
                self.violations.insert(k, v);
            }
        }
        for c in o.caps {
            if !self.caps.contains(&c) {
                self.caps.push(c);
            }
        }
        for c in o.notes {
            if !self.notes.contains(&c) {
                self.notes.push(c);
            }
        }
    }
}

pub fn hex(b: &[u8]) -> String {
    let mut s = String::with_capacity(b.len() * 2);
    for x in b {
        s.push_str(&format!("{:02x}", x));
    }
    s
}

pub fn unhex(s: &str) -> Vec<u8> {
    (0..s.len() / 2).map(|i| u8::from_str_radix(&s[2 * i..2 * i + 2], 16).unwrap()).collect()
}

pub fn jstr(s: &str) -> String {
    let mut o = String::from("\"");
    for c in s.chars() {
        match c {
            '"' => o.push_str("\\\""),
            '\\' => o.push_str("\\\\"),
            '\n' => o.push_str("\\n"),
            c if (c as u32) < 0x20 => o.push_str(&format!("\\u{:04x}", c as u32)),
            c => o.push(c),
        }
    }
    o.push('"');
    o
}

/// Run f under catch_unwind. Err(message with location) on panic.
pub fn guarded<R>(f: impl FnOnce() -> R) -> Result<R, String> {
    match panic::catch_unwind(AssertUnwindSafe(f)) {
        Ok(r) => Ok(r),
        Err(_) => Err(LAST_PANIC.with(|p| p.borrow().clone())),
    }
}

/// Panic signature without line numbers / concrete numbers
pub fn panic_class(msg: &str) -> String {
    let mut out = String::new();
    let mut prev_digit = false;
    for c in msg.chars() {
        if c.is_ascii_digit() {
            if !prev_digit {
                out.push('N');
            }
            prev_digit = true;
        } else {
            prev_digit = false;
            out.push(c);
        }
    }
    out.chars().take(110).collect()
}

/// First clause of a problem text (everything before the concrete values), for stable signatures
pub fn first_clause(s: &str) -> String {
    if s.starts_with("panic") {
        return panic_class(s);
    }
    let mut end = s.len();
    for pat in [" as ", " from ", ":", " (", " = ", " with ", " is "] {
        if let Some(i) = s.find(pat) {
            end = end.min(i);
        }
    }
    panic_class(&s[..end])
}

pub struct Progress {
    pub beats: Vec<AtomicU64>,
    pub labels: Vec<Mutex<String>>,
}

/// Run `n` shards on up to 16 threads. f(shard, report, beat) must bump `beat` regularly.
pub fn par_shards<F>(n: usize, f: F) -> Report
where
    F: Fn(usize, &mut Report, &AtomicU64, &Mutex<String>) + Sync,
{
    let threads = std::thread::available_parallelism().map(|x| x.get()).unwrap_or(4).min(16).min(n.max(1));
    let next = AtomicUsize::new(0);
    let done = AtomicUsize::new(0);
    let prog = Arc::new(Progress {
        beats: (0..threads).map(|_| AtomicU64::new(0)).collect(),
        labels: (0..threads).map(|_| Mutex::new(String::new())).collect(),
    });
    let total = Mutex::new(Report::default());
    std::thread::scope(|s| {
        for t in 0..threads {
            let (next, done, total, f, prog) = (&next, &done, &total, &f, prog.clone());
            s.spawn(move || {
                let mut rep = Report::default();
                loop {
                    let i = next.fetch_add(1, Ordering::SeqCst);
                    if i >= n {
                        break;
                    }
                    f(i, &mut rep, &prog.beats[t], &prog.labels[t]);
                }
                done.fetch_add(1, Ordering::SeqCst);
                total.lock().unwrap().merge(rep);
            });
        }
        // watchdog: a thread that makes no progress for 30 s is stuck inside the subject
        let prog = prog.clone();
        let done = &done;
        s.spawn(move || {
            let mut last: Vec<(u64, Instant)> = (0..threads).map(|_| (0, Instant::now())).collect();
            while done.load(Ordering::SeqCst) < threads {
                std::thread::sleep(Duration::from_millis(500));
                for t in 0..threads {
                    let b = prog.beats[t].load(Ordering::Relaxed);
                    if b != last[t].0 {
                        last[t] = (b, Instant::now());
                    } else if last[t].1.elapsed() > Duration::from_secs(30) && b != u64::MAX {
                        let label = prog.labels[t].lock().unwrap().clone();
                        if label.is_empty() {
                            continue;
                        }
                        println!("{{\"hang\": {}}}", jstr(&label));
                        std::process::exit(3);
                    }
                }
            }
        });
    });
    total.into_inner().unwrap()
}

fn write_report(path: &str, rep: &Report, wall: f64) {
    let mut s = String::from("{\n");
    s.push_str("\"counters\": {");
    s.push_str(&rep.counters.iter().map(|(k, v)| format!("{}: {}", jstr(k), v)).collect::<Vec<_>>().join(", "));
    s.push_str("},\n\"outcomes\": {");
    s.push_str(&rep.outcomes.iter().map(|(k, v)| format!("{}: {}", jstr(k), v)).collect::<Vec<_>>().join(", "));
    s.push_str("},\n\"samples\": [");
    s.push_str(&rep.samples.join(", "));
    s.push_str("],\n\"caps\": [");
    s.push_str(&rep.caps.iter().map(|c| jstr(c)).collect::<Vec<_>>().join(", "));
    s.push_str("],\n\"notes\": [");
    s.push_str(&rep.notes.iter().map(|c| jstr(c)).collect::<Vec<_>>().join(", "));
    s.push_str("],\n\"violations\": [");
    s.push_str(
        &rep.violations
            .values()
            .map(|v| format!("{{\"sig\": {}, \"desc\": {}, \"case\": {}, \"count\": {}}}", jstr(&v.sig), jstr(&v.desc), v.case, v.count))
            .collect::<Vec<_>>()
            .join(",\n"),
    );
    s.push_str(&format!("],\n\"wall_s\": {:.3}\n}}\n", wall));
    std::fs::write(path, s).expect("cannot write report");
}

fn main() {
    panic::set_hook(Box::new(|info| {
        let loc = info.location().map(|l| format!("{}:{}", l.file(), l.line())).unwrap_or_default();
        let msg = if let Some(s) = info.payload().downcast_ref::<&str>() {
            s.to_string()
        } else if let Some(s) = info.payload().downcast_ref::<String>() {
            s.clone()
        } else {
            "panic".to_string()
        };
        LAST_PANIC.with(|p| *p.borrow_mut() = format!("{} @ {}", msg, loc));
    }));
    let args: Vec<String> = std::env::args().collect();
    if args.len() < 2 {
        eprintln!("usage: rsx <c01|c15|c16|c17> <quick|thorough> <out.json> | rsx replay <check> <json>");
        std::process::exit(2);
    }
    let t0 = Instant::now();
    if args[1] == "replay" {
        let out = match args[2].as_str() {
            "c01" => c01::replay(&args[3], &args[4]),
            "c15" => c15::replay(&args[3], &args[4]),
            "c16" => c16::replay(&args[3], &args[4]),
            "c17" => c17::replay(&args[3], &args[4]),
            _ => "unknown".to_string(),
        };
        println!("{}", out);
        return;
    }
    let thorough = args[2] == "thorough";
    let rep = match args[1].as_str() {
        "c01" => c01::run(thorough),
        "c15" => c15::run(thorough),
        "c16" => c16::run(thorough),
        "c17" => c17::run(thorough),
        _ => {
            eprintln!("unknown check");
            std::process::exit(2);
        }
    };
    write_report(&args[3], &rep, t0.elapsed().as_secs_f64());
}
