//! C15: everything the library encodes, it decodes back unchanged and minimally.

use crate::refber as rb;
use crate::{guarded, hex, jstr, par_shards, Report};
use gufo_snmp::ber::{BerDecoder, BerEncoder, SnmpInt, SnmpNull, SnmpOid, TAG_OCTET_STRING};
use gufo_snmp::buf::Buffer;
use gufo_snmp::snmp::get::SnmpGet;
use gufo_snmp::snmp::msg::v3::{MsgData, ScopedPdu, UsmParameters};
use gufo_snmp::snmp::msg::{SnmpV1Message, SnmpV2cMessage, SnmpV3Message};
use gufo_snmp::snmp::pdu::SnmpPdu;
use gufo_snmp::verif::{getbulk_repr, make_getbulk};
use std::sync::atomic::Ordering;

fn check_int(v: i64, buf: &mut Buffer, rep: &mut Report) {
    let r = guarded(|| {
        buf.reset();
        let si: SnmpInt = v.into();
        if si.push_ber(buf).is_err() {
            return Err("push_ber failed".to_string());
        }
        let enc = buf.data().to_vec();
        let want = rb::enc_int(v);
        if enc != want {
            return Err(format!("encoded as {}, minimal form is {}", hex(&enc), hex(&want)));
        }
        match SnmpInt::from_ber(&enc) {
            Ok((tail, x)) => {
                let back: i64 = x.into();
                if !tail.is_empty() {
                    return Err(format!("{} octets left over after decoding", tail.len()));
                }
                if back != v {
                    return Err(format!("decodes back as {}", back));
                }
                Ok(())
            }
            Err(_) => Err(format!("own encoding {} rejected by the decoder", hex(&enc))),
        }
    });
    let problem = match r {
        Ok(Ok(())) => return,
        Ok(Err(e)) => e,
        Err(p) => format!("panic: {}", p),
    };
    let class = if v >= 0 { "positive" } else { "negative" };
    let width = rb::twos(v).len();
    rep.violation(
        &format!("integer/{}/{}-octets: {}", class, width, crate::first_clause(&problem)),
        format!("INTEGER {}: {}", v, problem),
        format!("{{\"kind\": \"int\", \"value\": {}}}", v),
    );
}

pub const ARCS: &[u64] = &[0, 1, 2, 39, 40, 127, 128, 255, 256, 16383, 16384, 2097151, 2097152, 268435455, 268435456, 4294967295];

fn check_oid(arcs: &[u64], buf: &mut Buffer, rep: &mut Report) {
    let s = arcs.iter().map(|a| a.to_string()).collect::<Vec<_>>().join(".");
    let r = guarded(|| {
        let oid = match SnmpOid::try_from(s.as_str()) {
            Ok(o) => o,
            Err(_) => return Err("valid OID text refused".to_string()),
        };
        buf.reset();
        if oid.push_ber(buf).is_err() {
            return Err("push_ber failed".into());
        }
        let enc = buf.data().to_vec();
        let want = rb::enc_oid(arcs);
        if enc != want {
            return Err(format!("encoded as {}, reference is {}", hex(&enc), hex(&want)));
        }
        match SnmpOid::from_ber(&enc) {
            Ok((tail, back)) => {
                if !tail.is_empty() {
                    return Err("octets left over".into());
                }
                if back != oid {
                    return Err("decodes back to a different OID".into());
                }
                match String::try_from(&back) {
                    Ok(t) if t == s => Ok(()),
                    Ok(t) => Err(format!("prints back as {}", t)),
                    Err(_) => Err("cannot be printed back".into()),
                }
            }
            Err(_) => Err("own encoding rejected".into()),
        }
    });
    let problem = match r {
        Ok(Ok(())) => return,
        Ok(Err(e)) => e,
        Err(p) => format!("panic: {}", p),
    };
    rep.violation(
        &format!("oid/{}-arcs: {}", arcs.len().min(5), crate::first_clause(&problem)),
        format!("OID {}: {}", s, problem),
        format!("{{\"kind\": \"oid\", \"oid\": {}}}", jstr(&s)),
    );
}

fn int_set() -> Vec<i64> {
    let mut v: Vec<i64> = vec![0, 1, -1, 127, 128, -128, -129, 255, 256, -255, -256, -257, 32767, 32768, -32767, -32768, -32769, 65535, 65536, -65535, -65536, 8388607, 8388608, -8388608, -8388609, 0x7fffffff, 0x80000000, -0x80000000, -0x80000001, 0xffffffff, 0x100000000, i64::MAX, i64::MIN, i64::MIN + 1, i64::MAX - 1, -0x100000000, 0x2085, 5_000_000];
    v.sort();
    v.dedup();
    v
}

fn oid_of_len(content_len: usize) -> Vec<u64> {
    // an OID whose encoded content is exactly content_len octets (first octet + one-octet arcs)
    let mut a = vec![1u64, 3];
    for _ in 1..content_len {
        a.push(7);
    }
    a
}

struct MsgCase {
    version: usize, // 0 v1, 1 v2c, 2 v3
    pdu: u8,        // a0 a1 a5
    rid: i64,
    x: i64, // msg id / non-repeaters
    y: i64, // boots / max-repetitions
    z: i64, // time
    oids: Vec<Vec<u64>>,
    name_len: usize, // community / user
    eng_len: usize,
    flags: u8, // v3: bit0 auth bit1 priv(encrypted data) bit2 report
}

fn check_msg(c: &MsgCase, buf: &mut Buffer, rep: &mut Report) {
    let r = guarded(|| -> Result<(), String> {
        let name = vec![b'c'; c.name_len];
        let eng: Vec<u8> = (0..c.eng_len).map(|i| (i as u8) | 0x80).collect();
        let oid_strs: Vec<String> = c.oids.iter().map(|a| a.iter().map(|x| x.to_string()).collect::<Vec<_>>().join(".")).collect();
        let mk_oids = || -> Result<Vec<SnmpOid<'static>>, String> { oid_strs.iter().map(|s| SnmpOid::try_from(s.as_str()).map_err(|_| "oid refused".to_string())).collect() };
        let mk_pdu = || -> Result<SnmpPdu<'static>, String> {
            Ok(match c.pdu {
                0xa0 => SnmpPdu::GetRequest(SnmpGet { request_id: c.rid, vars: mk_oids()? }),
                0xa1 => SnmpPdu::GetNextRequest(SnmpGet { request_id: c.rid, vars: mk_oids()? }),
                _ => SnmpPdu::GetBulkRequest(make_getbulk(c.rid, c.x, c.y, mk_oids()?)),
            })
        };
        let vbs: Vec<Vec<u8>> = c.oids.iter().map(|a| rb::varbind(&rb::enc_oid(a), &[5, 0])).collect();
        let (a, b) = if c.pdu == 0xa5 { (c.x, c.y) } else { (0, 0) };
        let ref_pdu = rb::pdu(c.pdu, c.rid, a, b, &vbs);
        buf.reset();
        let enc: Vec<u8>;
        let want: Vec<u8>;
        if c.version < 2 {
            let ok = if c.version == 0 {
                SnmpV1Message { community: &name, pdu: mk_pdu()? }.push_ber(buf).is_ok()
            } else {
                SnmpV2cMessage { community: &name, pdu: mk_pdu()? }.push_ber(buf).is_ok()
            };
            want = rb::community_msg(c.version as i64, &name, &ref_pdu);
            if !ok {
                if want.len() > buf.free() + buf.len() {
                    return Ok(()); // does not fit: C17's subject
                }
                return Err("push_ber failed although the message fits".into());
            }
            enc = buf.data().to_vec();
        } else {
            let auth = [0u8; 12];
            let salt = [1u8, 2, 3, 4, 5, 6, 7, 8];
            let ct = [0x5au8; 24];
            let encrypted = c.flags & 2 != 0;
            let usm = UsmParameters {
                engine_id: &eng,
                engine_boots: c.y,
                engine_time: c.z,
                user_name: &name,
                auth_params: if c.flags & 1 != 0 { &auth } else { &[] },
                privacy_params: if encrypted { &salt } else { &[] },
            };
            let data = if encrypted { MsgData::Encrypted(&ct) } else { MsgData::Plaintext(ScopedPdu { engine_id: &eng, pdu: mk_pdu()? }) };
            let m = SnmpV3Message { msg_id: c.x, flag_auth: c.flags & 1 != 0, flag_priv: encrypted, flag_report: c.flags & 4 != 0, usm, data };
            let ref_usm = rb::usm(&eng, c.y, c.z, &name, if c.flags & 1 != 0 { &auth } else { &[] }, if encrypted { &salt } else { &[] });
            let ref_data = if encrypted { rb::enc_octets(&ct) } else { rb::scoped(&eng, b"", &ref_pdu) };
            if m.push_ber(buf).is_err() {
                let probe = rb::v3_msg(c.x, 65507, c.flags, &ref_usm, &ref_data);
                if probe.len() > buf.free() + buf.len() {
                    return Ok(());
                }
                return Err("push_ber failed although the message fits".into());
            }
            enc = buf.data().to_vec();
            // msgMaxSize is the library's choice: read it back from the wire
            let nodes = rb::all_nodes(&enc);
            let ms = nodes.iter().filter(|n| n.depth == 2 && n.tag == 2).nth(1).map(|n| enc[n.cstart()..n.end()].to_vec()).unwrap_or_default();
            let mut maxsize = if !ms.is_empty() && ms[0] & 0x80 != 0 { -1i64 } else { 0 };
            for x in ms.iter() {
                maxsize = (maxsize << 8) | *x as i64;
            }
            want = rb::v3_msg(c.x, maxsize, c.flags, &ref_usm, &ref_data);
        }
        if enc != want {
            return Err(format!("encoded as {} ({} octets), reference encoding is {} ({} octets)", hex(&enc[..enc.len().min(48)]), enc.len(), hex(&want[..want.len().min(48)]), want.len()));
        }
        rb::strict_tree_ok(&enc).map_err(|e| format!("own encoding is not minimal/definite: {}", e))?;
        // decode back with the library
        let pdu_back: SnmpPdu = if c.version == 0 {
            let m = SnmpV1Message::try_from(enc.as_slice()).map_err(|_| "own encoding rejected by SnmpV1Message".to_string())?;
            if m.community != name.as_slice() {
                return Err("community changed".into());
            }
            m.pdu
        } else if c.version == 1 {
            let m = SnmpV2cMessage::try_from(enc.as_slice()).map_err(|_| "own encoding rejected by SnmpV2cMessage".to_string())?;
            if m.community != name.as_slice() {
                return Err("community changed".into());
            }
            m.pdu
        } else {
            let m = SnmpV3Message::try_from(enc.as_slice()).map_err(|_| "own encoding rejected by SnmpV3Message".to_string())?;
            if m.msg_id != c.x || m.flag_auth != (c.flags & 1 != 0) || m.flag_priv != (c.flags & 2 != 0) || m.flag_report != (c.flags & 4 != 0) {
                return Err("msgID / flags changed".into());
            }
            if m.usm.engine_id != eng.as_slice() || m.usm.engine_boots != c.y || m.usm.engine_time != c.z || m.usm.user_name != name.as_slice() {
                return Err(format!("USM fields changed: boots {} time {}", m.usm.engine_boots, m.usm.engine_time));
            }
            match m.data {
                MsgData::Encrypted(x) => {
                    if x != [0x5au8; 24] {
                        return Err("ciphertext changed".into());
                    }
                    return Ok(());
                }
                MsgData::Plaintext(s) => {
                    if s.engine_id != eng.as_slice() {
                        return Err("context engine id changed".into());
                    }
                    s.pdu
                }
            }
        };
        let want_oids: Vec<Vec<u8>> = c.oids.iter().map(|a| rb::oid_content(a)).collect();
        match (c.pdu, pdu_back) {
            (0xa0, SnmpPdu::GetRequest(g)) | (0xa1, SnmpPdu::GetNextRequest(g)) => {
                let got: Vec<Vec<u8>> = g.vars.iter().map(|o| Vec::<u8>::from(o)).collect();
                if g.request_id != c.rid || got != want_oids {
                    return Err(format!("request-id / OIDs changed: {}", g.request_id));
                }
            }
            (0xa5, SnmpPdu::GetBulkRequest(g)) => {
                let (rid, nr, mr, oids) = getbulk_repr(&g);
                if rid != c.rid || nr != c.x || mr != c.y || oids != want_oids {
                    return Err(format!("GetBulk fields changed: {} {} {}", rid, nr, mr));
                }
            }
            _ => return Err("PDU type changed".into()),
        }
        Ok(())
    });
    let problem = match r {
        Ok(Ok(())) => return,
        Ok(Err(e)) => e,
        Err(p) => format!("panic: {}", p),
    };
    rep.violation(
        &format!("message/v{}/{:02x}/oids={}: {}", [1, 2, 3][c.version], c.pdu, c.oids.len(), crate::first_clause(&problem)),
        format!("v{} pdu {:02x} request-id {} x {} y {} z {} oid lengths {:?} name {} engine {} flags {}: {}", [1, 2, 3][c.version], c.pdu, c.rid, c.x, c.y, c.z, c.oids.iter().map(|o| rb::oid_content(o).len()).collect::<Vec<_>>(), c.name_len, c.eng_len, c.flags, problem),
        format!("{{\"kind\": \"msg\", \"version\": {}, \"pdu\": {}, \"rid\": {}, \"x\": {}, \"y\": {}, \"z\": {}, \"oid_lens\": {:?}, \"name_len\": {}, \"eng_len\": {}, \"flags\": {}}}", c.version, c.pdu, c.rid, c.x, c.y, c.z, c.oids.iter().map(|o| rb::oid_content(o).len()).collect::<Vec<_>>(), c.name_len, c.eng_len, c.flags),
    );
}

fn oid_lists() -> Vec<Vec<Vec<u64>>> {
    vec![
        vec![],
        vec![vec![1, 3, 6, 1, 2, 1, 1, 5, 0]],
        vec![oid_of_len(127)],
        vec![oid_of_len(128)],
        vec![oid_of_len(255)],
        vec![oid_of_len(256)],
        vec![oid_of_len(120), oid_of_len(129)],
        vec![vec![2, 39, 4294967295, 16384], vec![0, 0], oid_of_len(3)],
        vec![oid_of_len(100), oid_of_len(60), oid_of_len(91)],
    ]
}

pub fn run(thorough: bool) -> Report {
    // ---- integers: all values of 1..3 content octets, split into 64 shards; then the bands
    let band: i64 = if thorough { 1 << 20 } else { 1 << 14 };
    let mut centers: Vec<i128> = Vec::new();
    for k in 1..=8u32 {
        for c in [1i128 << (8 * k - 1), -(1i128 << (8 * k - 1)), 1i128 << (8 * k).min(126), -(1i128 << (8 * k).min(126))] {
            if k == 8 && c.unsigned_abs() > (1u128 << 63) {
                continue;
            }
            centers.push(c);
        }
    }
    let nshard_a = 64usize;
    let lo: i64 = -(1 << 23);
    let span: i64 = (1 << 24) / nshard_a as i64;
    let mut rep = par_shards(nshard_a + centers.len(), |i, rep, beat, label| {
        let mut buf = Buffer::default();
        let mut n = 0u64;
        if i < nshard_a {
            *label.lock().unwrap() = format!("integers shard {}", i);
            let a = lo + span * i as i64;
            for v in a..a + span {
                check_int(v, &mut buf, rep);
                n += 1;
                if n % 4096 == 0 {
                    beat.fetch_add(1, Ordering::Relaxed);
                }
            }
        } else {
            let c = centers[i - nshard_a];
            *label.lock().unwrap() = format!("integer band around {}", c);
            let a = (c - band as i128).max(i64::MIN as i128);
            let b = (c + band as i128).min(i64::MAX as i128);
            let mut v = a;
            while v <= b {
                check_int(v as i64, &mut buf, rep);
                n += 1;
                v += 1;
                if n % 4096 == 0 {
                    beat.fetch_add(1, Ordering::Relaxed);
                }
            }
        }
        rep.count("integers", n);
        rep.count("evaluations", n);
        label.lock().unwrap().clear();
    });
    // ---- OIDs
    let r2 = par_shards(ARCS.len(), |i, rep, beat, label| {
        *label.lock().unwrap() = format!("oids with third arc {}", ARCS[i]);
        let mut buf = Buffer::default();
        let mut n = 0u64;
        for first in 0..3u64 {
            for &second in &[0u64, 1, 39] {
                check_oid(&[first, second], &mut buf, rep);
                n += 1;
                check_oid(&[first, second, ARCS[i]], &mut buf, rep);
                n += 1;
                for &a4 in ARCS {
                    check_oid(&[first, second, ARCS[i], a4], &mut buf, rep);
                    n += 1;
                    if thorough || first == 1 {
                        for &a5 in ARCS {
                            check_oid(&[first, second, ARCS[i], a4, a5], &mut buf, rep);
                            n += 1;
                        }
                    }
                }
                beat.fetch_add(1, Ordering::Relaxed);
            }
        }
        if i == 0 {
            for len in 2..=128usize {
                let mut arcs = vec![1u64, 3];
                for j in 2..len {
                    arcs.push(ARCS[j % ARCS.len()]);
                }
                check_oid(&arcs, &mut buf, rep);
                n += 1;
            }
        }
        rep.count("oids", n);
        rep.count("evaluations", n);
        label.lock().unwrap().clear();
    });
    rep.merge(r2);
    // ---- NULL and OCTET STRING fields
    let mut buf = Buffer::default();
    let capacity = buf.free();
    let r = guarded(|| {
        buf.reset();
        SnmpNull {}.push_ber(&mut buf).ok();
        buf.data().to_vec()
    });
    match r {
        Ok(b) if b == vec![5u8, 0] && SnmpNull::from_ber(&b).map(|(t, _)| t.is_empty()).unwrap_or(false) => {}
        other => rep.violation("null", format!("NULL encodes/decodes as {:?}", other.map(|b| hex(&b))), "{\"kind\": \"null\"}".into()),
    }
    rep.count("evaluations", 1);
    for len in [0usize, 1, 2, 126, 127, 128, 129, 254, 255, 256, 257, 1000, 4000, capacity - 4, capacity - 3] {
        let data: Vec<u8> = (0..len).map(|i| (i * 7) as u8).collect();
        let r = guarded(|| {
            buf.reset();
            if buf.push_tagged(TAG_OCTET_STRING, &data).is_err() {
                return None;
            }
            Some(buf.data().to_vec())
        });
        let want = rb::enc_octets(&data);
        rep.count("evaluations", 1);
        rep.count("octet_strings", 1);
        match r {
            Ok(Some(b)) if b == want => {
                use gufo_snmp::ber::SnmpOctetString;
                if !SnmpOctetString::from_ber(&b).map(|(t, _)| t.is_empty()).unwrap_or(false) {
                    rep.violation("octets/decode", format!("OCTET STRING of {} octets: own encoding rejected", len), format!("{{\"kind\": \"octets\", \"len\": {}}}", len));
                }
            }
            Ok(None) if want.len() > capacity => {}
            other => rep.violation(&format!("octets/len-{}", len), format!("OCTET STRING of {} octets encodes as {:?}", len, other.map(|b| b.map(|b| hex(&b[..b.len().min(8)])))), format!("{{\"kind\": \"octets\", \"len\": {}}}", len)),
        }
    }
    // ---- messages
    let ints = int_set();
    let lists = oid_lists();
    let lens = [0usize, 1, 127, 128, 255, 256];
    let r3 = par_shards(ints.len(), |i, rep, beat, label| {
        *label.lock().unwrap() = format!("messages with integer {}", ints[i]);
        let mut buf = Buffer::default();
        let v = ints[i];
        let mut n = 0u64;
        for version in 0..3usize {
            for pdu in [0xa0u8, 0xa1, 0xa5] {
                for (li, oids) in lists.iter().enumerate() {
                    for (ni, &nl) in lens.iter().enumerate() {
                        // rotate the boundary integer through every integer field
                        let others = [ints[(i + 7) % ints.len()], ints[(i + 13) % ints.len()], ints[(i + 29) % ints.len()]];
                        for slot in 0..4 {
                            if !thorough && (slot + li + ni) % 2 == 1 {
                                continue;
                            }
                            let mut f = [others[0], others[1], others[2], others[(slot + 1) % 3]];
                            f[slot] = v;
                            let flags_set: &[u8] = if version == 2 { &[0, 1, 3, 4, 5, 7] } else { &[0] };
                            for &flags in flags_set {
                                if version == 2 && !thorough && flags != 0 && (li + ni + slot) % 3 != 0 {
                                    continue;
                                }
                                let c = MsgCase { version, pdu, rid: f[0], x: f[1], y: f[2], z: f[3], oids: oids.clone(), name_len: nl, eng_len: lens[(ni + li) % lens.len()].min(if version == 2 { 256 } else { 0 }), flags };
                                check_msg(&c, &mut buf, rep);
                                n += 1;
                            }
                        }
                    }
                    beat.fetch_add(1, Ordering::Relaxed);
                }
            }
        }
        rep.count("messages", n);
        rep.count("evaluations", n);
        label.lock().unwrap().clear();
    });
    rep.merge(r3);
    // ---- message size sweep: k ordinary OIDs + one OID of L arcs, every k until the message no longer fits
    let r4 = par_shards(9, |i, rep, beat, label| {
        let version = i / 3;
        let pdu = [0xa0u8, 0xa1, 0xa5][i % 3];
        *label.lock().unwrap() = format!("message size sweep v{} pdu {:02x}", version + 1, pdu);
        let mut buf = Buffer::default();
        let capacity = buf.free();
        let mut n = 0u64;
        let base: Vec<u64> = vec![1, 3, 6, 1, 2, 1, 2, 2, 1, 10];
        let kmax = capacity / 13 + 2;
        let mut k = 0usize;
        while k <= kmax {
            for l in [2usize, 3, 5, 8, 11, 14, 17, 21] {
                if !thorough && k % 3 != 0 && l != 5 {
                    continue;
                }
                let mut oids: Vec<Vec<u64>> = (0..k).map(|j| { let mut o = base.clone(); o.push(1 + (j as u64 % 100)); o }).collect();
                oids.push(oid_of_len(l));
                for &flags in if version == 2 { &[0u8, 1][..] } else { &[0u8][..] } {
                    let c = MsgCase { version, pdu, rid: 0x12345678, x: if pdu == 0xa5 { 0 } else { 0x1234567 }, y: 25, z: 1000, oids: oids.clone(), name_len: 6, eng_len: if version == 2 { 11 } else { 0 }, flags };
                    check_msg(&c, &mut buf, rep);
                    n += 1;
                }
            }
            k += 1;
            beat.fetch_add(1, Ordering::Relaxed);
        }
        rep.count("messages", n);
        rep.count("size_sweep_messages", n);
        rep.count("evaluations", n);
        label.lock().unwrap().clear();
    });
    rep.merge(r4);
    // ---- privacy layer round trip: what PrivKey::encrypt emits for a request, a second key object decrypts back
    let r5 = par_shards(2, |i, rep, beat, label| {
        use crate::c01::KEY;
        use gufo_snmp::verif::{PrivKey, SnmpPriv};
        let alg = (i + 1) as u8;
        *label.lock().unwrap() = format!("privacy round trip alg {}", alg);
        let engine: &[u8] = b"\x80\x00\x1f\x88\x04eng";
        let mut n = 0u64;
        let mk = || -> Option<PrivKey> {
            let mut k = PrivKey::new(alg).ok()?;
            k.as_localized(&KEY).ok()?;
            Some(k)
        };
        let (mut enc, mut dec) = match (mk(), mk()) {
            (Some(a), Some(b)) => (a, b),
            _ => return,
        };
        for k in 0..40usize {
            for l in 2..=18usize {
                let mut strs: Vec<String> = (0..k).map(|j| format!("1.3.6.1.2.1.2.2.1.10.{}", j + 1)).collect();
                strs.push(oid_of_len(l).iter().map(|x| x.to_string()).collect::<Vec<_>>().join("."));
                for (ci, (boots, time)) in [(1i64, 2i64), (0x7fffffff, 0x7fffffff), (0, 0)].into_iter().enumerate() {
                    // the three request PDU types in turn (the privacy layer serialises the PDU into a buffer that already
                    // holds its padding, so every PDU encoder runs at a non-zero buffer offset here)
                    let ptype = (k + l + ci) % 3;
                    let r = guarded(|| -> Result<(), String> {
                        let vars: Vec<SnmpOid> = strs.iter().map(|s| SnmpOid::try_from(s.as_str()).map_err(|_| "oid refused".to_string())).collect::<Result<_, _>>()?;
                        let want: Vec<Vec<u8>> = vars.iter().map(|o| Vec::<u8>::from(o)).collect();
                        let rid = 0x1234 + k as i64;
                        let pdu = match ptype {
                            0 => SnmpPdu::GetRequest(SnmpGet { request_id: rid, vars }),
                            1 => SnmpPdu::GetNextRequest(SnmpGet { request_id: rid, vars }),
                            _ => SnmpPdu::GetBulkRequest(make_getbulk(rid, 0, 10 + l as i64, vars)),
                        };
                        let sp = ScopedPdu { engine_id: engine, pdu };
                        let (ct, salt) = match enc.encrypt(&sp, boots as u32, boots as u32 ^ time as u32) {
                            Ok((c, s)) => (c.to_vec(), s.to_vec()),
                            Err(_) => return Err("encrypt refused a request that fits".into()),
                        };
                        let usm = UsmParameters { engine_id: engine, engine_boots: boots, engine_time: (boots as u32 ^ time as u32) as i64, user_name: b"u", auth_params: &[], privacy_params: &salt };
                        let back = dec.decrypt(&ct, &usm).map_err(|_| format!("own ciphertext of {} octets (scoped PDU with {} OIDs) rejected by decrypt", ct.len(), want.len()))?;
                        if back.engine_id != engine {
                            return Err("context engine id changed".into());
                        }
                        match (ptype, back.pdu) {
                            (0, SnmpPdu::GetRequest(g)) | (1, SnmpPdu::GetNextRequest(g)) => {
                                let got: Vec<Vec<u8>> = g.vars.iter().map(|o| Vec::<u8>::from(o)).collect();
                                if g.request_id != rid || got != want {
                                    return Err("request-id / OIDs changed through encrypt+decrypt".into());
                                }
                            }
                            (2, SnmpPdu::GetBulkRequest(g)) => {
                                let (r2, nr, mr, oids) = getbulk_repr(&g);
                                if r2 != rid || nr != 0 || mr != 10 + l as i64 || oids != want {
                                    return Err("GetBulk fields changed through encrypt+decrypt".into());
                                }
                            }
                            _ => return Err("PDU type changed".into()),
                        }
                        Ok(())
                    });
                    n += 1;
                    let problem = match r {
                        Ok(Ok(())) => continue,
                        Ok(Err(e)) => e,
                        Err(p) => format!("panic: {}", p),
                    };
                    rep.violation(
                        &format!("privacy-roundtrip/{}: {}", if alg == 1 { "des" } else { "aes" }, crate::first_clause(&problem)),
                        format!("{} OIDs + one of {} arcs, boots {} time {}: {}", k, l, boots, time, problem),
                        format!("{{\"kind\": \"privacy\", \"alg\": {}, \"k\": {}, \"l\": {}}}", alg, k, l),
                    );
                }
            }
            beat.fetch_add(1, Ordering::Relaxed);
        }
        rep.count("privacy_roundtrips", n);
        rep.count("evaluations", n);
        label.lock().unwrap().clear();
    });
    rep.merge(r5);
    rep.sample(format!("{{\"int\": -32767, \"reference\": {}}}", jstr(&hex(&rb::enc_int(-32767)))));
    rep.sample(format!("{{\"oid\": \"2.39.4294967295.16384\", \"reference\": {}}}", jstr(&hex(&rb::enc_oid(&[2, 39, 4294967295, 16384])))));
    rep
}

pub fn replay(_kind: &str, json: &str) -> String {
    let mut rep = Report::default();
    let mut buf = Buffer::default();
    let num = |k: &str| -> Option<i64> {
        let pat = format!("\"{}\": ", k);
        let i = json.find(&pat)? + pat.len();
        let rest = &json[i..];
        let end = rest.find([',', '}']).unwrap_or(rest.len());
        rest[..end].trim().parse().ok()
    };
    if json.contains("\"kind\": \"int\"") {
        check_int(num("value").unwrap_or(0), &mut buf, &mut rep);
    } else if json.contains("\"kind\": \"oid\"") {
        let pat = "\"oid\": \"";
        let i = json.find(pat).map(|i| i + pat.len()).unwrap_or(0);
        let s = &json[i..];
        let s = &s[..s.find('"').unwrap_or(0)];
        let arcs: Vec<u64> = s.split('.').filter_map(|x| x.parse().ok()).collect();
        check_oid(&arcs, &mut buf, &mut rep);
    } else if json.contains("\"kind\": \"msg\"") {
        let pat = "\"oid_lens\": [";
        let i = json.find(pat).map(|i| i + pat.len()).unwrap_or(0);
        let s = &json[i..];
        let s = &s[..s.find(']').unwrap_or(0)];
        let oids: Vec<Vec<u64>> = s.split(',').filter_map(|x| x.trim().parse::<usize>().ok()).map(oid_of_len).collect();
        let c = MsgCase { version: num("version").unwrap_or(1) as usize, pdu: num("pdu").unwrap_or(160) as u8, rid: num("rid").unwrap_or(0), x: num("x").unwrap_or(0), y: num("y").unwrap_or(0), z: num("z").unwrap_or(0), oids, name_len: num("name_len").unwrap_or(0) as usize, eng_len: num("eng_len").unwrap_or(0) as usize, flags: num("flags").unwrap_or(0) as u8 };
        check_msg(&c, &mut buf, &mut rep);
    }
    if rep.violations.is_empty() {
        "holds".into()
    } else {
        rep.violations.values().map(|v| v.desc.clone()).collect::<Vec<_>>().join("; ")
    }
}
