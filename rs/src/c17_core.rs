//! C17 core: Buffer operations vs a Vec-backed shadow model. Shared by the RSX explorer (real crate)
//! and by the Miri slice (buffer.rs included textually). `crate::BufferUnderTest` names the subject.

use crate::BufferUnderTest as Buffer;
use std::mem::MaybeUninit;
use std::panic::{self, AssertUnwindSafe};

fn guarded<R>(f: impl FnOnce() -> R) -> Result<R, String> {
    panic::catch_unwind(AssertUnwindSafe(f)).map_err(|_| crate::last_panic())
}

#[derive(Clone, Copy, Debug, PartialEq)]
pub enum Op {
    Push(usize),
    PushU8,
    PushTagLen(usize),
    PushTagged(usize),
    SkipFill(usize),
    Reset,
    Bookmark(usize),
    RecvFill(usize),
}

pub struct Shadow {
    pub cap: usize,
    pub data: Vec<u8>, // front = most recently pushed
    pub bookmark: Option<usize>, // distance from the END of data to the bookmarked octet
}

impl Shadow {
    fn free(&self) -> usize {
        self.cap - self.data.len()
    }
    fn prepend(&mut self, b: &[u8]) {
        let mut n = b.to_vec();
        n.extend_from_slice(&self.data);
        self.data = n;
    }
}

fn pattern(seed: usize, n: usize) -> Vec<u8> {
    (0..n).map(|i| ((i * 31 + seed * 17 + 1) & 0xff) as u8).collect()
}

fn tag_len_bytes(tag: u8, v: usize) -> Vec<u8> {
    if v < 128 {
        vec![tag, v as u8]
    } else if v < 256 {
        vec![tag, 0x81, v as u8]
    } else {
        vec![tag, 0x82, (v >> 8) as u8, v as u8]
    }
}

/// Apply one op to both; Err(text) on disagreement
pub fn step(buf: &mut Buffer, sh: &mut Shadow, op: Op, seq_no: usize) -> Result<(), String> {
    match op {
        Op::Push(n) => {
            let chunk = pattern(seq_no, n);
            let r = buf.push(&chunk);
            if n <= sh.free() {
                if r.is_err() {
                    return Err(format!("push({}) failed with {} free", n, sh.free()));
                }
                sh.prepend(&chunk);
            } else if r.is_ok() {
                return Err(format!("push({}) succeeded with only {} free", n, sh.free()));
            }
        }
        Op::PushU8 => {
            let r = buf.push_u8(0xa5);
            if sh.free() >= 1 {
                if r.is_err() {
                    return Err("push_u8 failed with room left".into());
                }
                sh.prepend(&[0xa5]);
            } else if r.is_ok() {
                return Err("push_u8 succeeded on a full buffer".into());
            }
        }
        Op::PushTagLen(v) => {
            let b = tag_len_bytes(0x30, v);
            let r = buf.push_tag_len(0x30, v);
            if b.len() <= sh.free() {
                if r.is_err() {
                    return Err(format!("push_tag_len({}) failed with {} free", v, sh.free()));
                }
                sh.prepend(&b);
            } else if r.is_ok() {
                return Err(format!("push_tag_len({}) succeeded with only {} free", v, sh.free()));
            } else {
                // a failed call must not have written anything visible
            }
        }
        Op::PushTagged(n) => {
            let chunk = pattern(seq_no + 3, n);
            let hdr = tag_len_bytes(0x04, n);
            let r = buf.push_tagged(0x04, &chunk);
            if n + hdr.len() <= sh.free() {
                if r.is_err() {
                    return Err(format!("push_tagged({}) failed with {} free", n, sh.free()));
                }
                sh.prepend(&chunk);
                sh.prepend(&hdr);
            } else if r.is_ok() {
                return Err(format!("push_tagged({}) succeeded with only {} free", n, sh.free()));
            } else if n <= sh.free() {
                // the data went in, the header did not fit: the partial write stays (as in a failed request)
                sh.prepend(&chunk);
            }
        }
        Op::SkipFill(n) => {
            // as the code uses it: reserve, then overwrite the reserved octets through data_mut()
            buf.skip(n);
            let k = n.min(sh.free());
            let fill = pattern(seq_no + 7, k);
            let dm = buf.data_mut();
            if dm.len() != sh.data.len() + k {
                return Err(format!("after skip({}) data_mut() is {} octets, model says {}", n, dm.len(), sh.data.len() + k));
            }
            dm[..k].copy_from_slice(&fill);
            sh.prepend(&fill);
        }
        Op::Reset => {
            buf.reset();
            sh.data.clear();
            sh.bookmark = None;
        }
        Op::Bookmark(delta) => {
            if delta <= sh.data.len() {
                buf.set_bookmark(delta);
                sh.bookmark = Some(sh.data.len() - delta);
            }
        }
        Op::RecvFill(n) => {
            // receive path: the socket writes n octets at the start of the raw storage, as_slice(n) exposes them
            let n = n.min(sh.cap);
            let fill = pattern(seq_no + 11, n);
            {
                let raw: &mut [MaybeUninit<u8>] = buf.as_mut();
                if raw.len() != sh.cap {
                    return Err(format!("raw storage is {} octets, capacity {}", raw.len(), sh.cap));
                }
                for (i, b) in fill.iter().enumerate() {
                    raw[i].write(*b);
                }
            }
            // (works whether as_slice returns the slice or a Result of it)
            match SliceView::view(&buf.as_slice(n)) {
                Some(got) if got == fill.as_slice() => {}
                Some(_) => return Err(format!("as_slice({}) differs from what was received", n)),
                None => return Err(format!("as_slice({}) refused although {} octets fit the storage", n, n)),
            }
            // storage is shared with the stack: whatever was pushed into the first n octets is gone
            buf.reset();
            sh.data.clear();
            sh.bookmark = None;
        }
    }
    // observable state
    if buf.len() != sh.data.len() || buf.free() != sh.free() {
        return Err(format!("len/free {}/{} but model says {}/{}", buf.len(), buf.free(), sh.data.len(), sh.free()));
    }
    if buf.is_empty() != sh.data.is_empty() || buf.is_full() != (sh.free() == 0) {
        return Err("is_empty/is_full disagree with the model".into());
    }
    if buf.data() != sh.data.as_slice() {
        let i = buf.data().iter().zip(sh.data.iter()).position(|(a, b)| a != b).unwrap_or(0);
        return Err(format!("data() differs from the model at offset {}", i));
    }
    if let Some(b) = sh.bookmark {
        let want = sh.data.len() - b;
        if buf.get_bookmark() != want {
            return Err(format!("get_bookmark() = {}, model says {}", buf.get_bookmark(), want));
        }
    }
    Ok(())
}

pub fn alphabet(cap: usize) -> Vec<Op> {
    let mut ops = Vec::new();
    for n in [0usize, 1, 2, 127, 128, 255, 256, cap - 5, cap - 4, cap - 3, cap - 2, cap - 1, cap, cap + 1] {
        ops.push(Op::Push(n));
    }
    ops.push(Op::PushU8);
    for v in [0usize, 1, 127, 128, 255, 256, cap, 65535] {
        ops.push(Op::PushTagLen(v));
    }
    for n in [0usize, 1, 127, 128, 255, 256, cap - 4, cap - 3, cap - 2, cap] {
        ops.push(Op::PushTagged(n));
    }
    for n in [0usize, 1, 8, cap - 1, cap, cap + 1] {
        ops.push(Op::SkipFill(n));
    }
    ops.push(Op::Reset);
    ops.push(Op::Bookmark(0));
    ops.push(Op::Bookmark(2));
    for n in [0usize, 1, 100, cap] {
        ops.push(Op::RecvFill(n));
    }
    ops
}

pub fn run_seq(seq: &[Op], cap: usize) -> Result<(), (usize, String)> {
    let mut buf = Buffer::default();
    let mut sh = Shadow { cap, data: Vec::new(), bookmark: None };
    for (i, op) in seq.iter().enumerate() {
        match guarded(|| step(&mut buf, &mut sh, *op, i)) {
            Ok(Ok(())) => {}
            Ok(Err(e)) => return Err((i, e)),
            Err(p) => return Err((i, format!("panic: {}", p))),
        }
    }
    Ok(())
}

/// Adapter so that the harness builds whether `Buffer::as_slice` hands out the slice itself or a `Result` of it.
pub trait SliceView {
    fn view(&self) -> Option<&[u8]>;
}
impl SliceView for &[u8] {
    fn view(&self) -> Option<&[u8]> {
        Some(self)
    }
}
impl<E> SliceView for Result<&[u8], E> {
    fn view(&self) -> Option<&[u8]> {
        self.as_ref().ok().copied()
    }
}
