//! C17 (Rust side): every sequence of Buffer operations agrees with a Vec-backed shadow model.

pub use crate::c17_core::{alphabet, run_seq, Op};
use crate::{jstr, par_shards, Report};
use gufo_snmp::buf::Buffer;
use std::sync::atomic::Ordering;

fn op_name(op: &Op, cap: usize) -> String {
    let rel = |n: usize| -> String {
        if n + 8 >= cap && n <= cap + 8 {
            if n >= cap { format!("C+{}", n - cap) } else { format!("C-{}", cap - n) }
        } else {
            n.to_string()
        }
    };
    match op {
        Op::Push(n) => format!("push({})", rel(*n)),
        Op::PushU8 => "push_u8".into(),
        Op::PushTagLen(v) => format!("push_tag_len({})", rel(*v)),
        Op::PushTagged(n) => format!("push_tagged({})", rel(*n)),
        Op::SkipFill(n) => format!("skip+fill({})", rel(*n)),
        Op::Reset => "reset".into(),
        Op::Bookmark(d) => format!("set_bookmark({})", d),
        Op::RecvFill(n) => format!("recv({})", rel(*n)),
    }
}

pub fn run(thorough: bool) -> Report {
    let cap = Buffer::default().free();
    let ops = alphabet(cap);
    let depth = if thorough { 5 } else { 4 };
    let n = ops.len();
    let mut rep = par_shards(n * n, |i, rep, beat, label| {
        let (a, b) = (i / n, i % n);
        *label.lock().unwrap() = format!("sequences starting {} {}", op_name(&ops[a], cap), op_name(&ops[b], cap));
        let mut count = 0u64;
        let rest = depth - 2;
        let mut idx = vec![0usize; rest];
        loop {
            let mut seq = vec![ops[a], ops[b]];
            for &k in idx.iter() {
                seq.push(ops[k]);
            }
            count += 1;
            if let Err((at, e)) = run_seq(&seq, cap) {
                let names: Vec<String> = seq[..=at].iter().map(|o| op_name(o, cap)).collect();
                rep.violation(
                    &format!("buffer/{}: {}", op_name(&seq[at], cap), crate::first_clause(&e)),
                    format!("after {}: {}", names.join(" ; "), e),
                    format!("{{\"kind\": \"seq\", \"ops\": {}}}", jstr(&format!("{:?}", &seq[..=at]))),
                );
            }
            if count % 256 == 0 {
                beat.fetch_add(1, Ordering::Relaxed);
            }
            let mut p = rest;
            loop {
                if p == 0 {
                    break;
                }
                p -= 1;
                idx[p] += 1;
                if idx[p] < n {
                    break;
                }
                idx[p] = 0;
                if p == 0 {
                    p = usize::MAX;
                    break;
                }
            }
            if p == usize::MAX || rest == 0 {
                break;
            }
        }
        rep.count("sequences", count);
        rep.count("evaluations", count);
        rep.count("operations", count * depth as u64);
        label.lock().unwrap().clear();
    });
    // shorter sequences are prefixes of the enumerated ones; depth-1 ops listed for the record
    rep.count("capacity", cap as u64);
    rep.count("alphabet", n as u64);
    rep.count("depth", depth as u64);
    rep.sample(format!("{{\"capacity\": {}, \"alphabet\": {}}}", cap, jstr(&ops.iter().map(|o| op_name(o, cap)).collect::<Vec<_>>().join(" "))));
    rep
}

pub fn replay(_kind: &str, json: &str) -> String {
    // {"kind":"seq","ops":"[Push(1), Reset, ...]"}
    let cap = Buffer::default().free();
    let pat = "\"ops\": \"";
    let i = json.find(pat).map(|i| i + pat.len()).unwrap_or(0);
    let s = &json[i..];
    let s = &s[..s.find('"').unwrap_or(0)];
    let mut seq = Vec::new();
    for tok in s.trim_matches(|c| c == '[' || c == ']').split(", ") {
        let (name, arg) = match tok.find('(') {
            Some(p) => (&tok[..p], tok[p + 1..tok.len() - 1].parse::<usize>().unwrap_or(0)),
            None => (tok, 0),
        };
        seq.push(match name {
            "Push" => Op::Push(arg),
            "PushU8" => Op::PushU8,
            "PushTagLen" => Op::PushTagLen(arg),
            "PushTagged" => Op::PushTagged(arg),
            "SkipFill" => Op::SkipFill(arg),
            "Reset" => Op::Reset,
            "Bookmark" => Op::Bookmark(arg),
            "RecvFill" => Op::RecvFill(arg),
            _ => continue,
        });
    }
    match run_seq(&seq, cap) {
        Ok(()) => "holds".into(),
        Err((at, e)) => format!("step {}: {}", at, e),
    }
}
